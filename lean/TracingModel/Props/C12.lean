/-
C12 — "After a reload returns, every thread filters with the new value"

  Once reload or modify on a reload handle has returned, every emission that starts afterwards on
  any thread, from any callsite - including callsites whose previous verdict was cached as always
  or never - is judged by the new filter or layer and by the new maximum level; an emission racing
  with the reload is judged entirely by the old or entirely by the new value, and a handle whose
  collector is gone reports an error instead of acting.

Model: Core/Reload.lean (stack templates with reloadable slots over C07's filtering model, the
process-wide interest cache and MAX_LEVEL, `pick_level_hint`, and `Handle::modify` INTERPRETED from
the step list extracted from reload.rs on every run — Gen/ReloadOrder.lean).
-/
import TracingModel.Core.Reload
import TracingModel.Props.C07
import TracingModel.Props.C04
import TracingModel.Lemmas.StackHint
import TracingModel.Props.C12E
import TracingModel.Props.C12F

namespace C12
open TM.Reload TM.Filtering TM.FilterExpr TM.Directive TM.FilteringLemmas
open TM.Callsite (Interest)

/-! ### the invariant a returned reload establishes -/

structure Inv (tm : List Tmpl) (pool : Nat → Meta) (s : RState) : Prop where
  cache : ∀ cs i, s.cache.lookup cs = some i → i = stackInterest (instStack s.vals tm) (pool cs)
  ml : s.maxLevel = hintRank (instStack s.vals tm)
  bits : s.t.bits = Bits.clean

/-- what a history must respect: the template is well formed (distinct filter ids, honest fixed
filters), and every value ever installed is honest (C08) -/
structure GoodStack (st : Stack) : Prop where
  ne : st ≠ []
  wf : WF st
  honest : HonestStack st
  built : BuiltStack st

theorem emitEvent_eq (st : Stack) (s : TState) (m : Meta) (c : Ctx) :
    emitEvent st s m c = emitEventI (stackInterest st m) st s m c := by
  unfold emitEvent emitEventI
  cases stackInterest st m <;> rfl

theorem lookup_map_fst (l : List (Nat × Interest)) (f : Nat → Interest) (cs : Nat) (i : Interest)
    (h : (l.map (fun e => (e.1, f e.1))).lookup cs = some i) : i = f cs := by
  induction l with
  | nil => simp at h
  | cons x rest ih =>
    simp only [List.map_cons, List.lookup_cons] at h
    by_cases hx : cs == x.1
    · simp only [hx] at h
      have : x.1 = cs := by simpa using (beq_iff_eq.mp hx).symm
      cases h; rw [this]
    · simp only [hx] at h
      exact ih h

/-- **C12.emit_spec** — in a state satisfying the invariant, an emission from ANY callsite (cached
or hit for the first time) is received by exactly the layers the CURRENT values select -/
theorem emit_spec (tm : List Tmpl) (pool : Nat → Meta) (hpool : ∀ cs, (pool cs).level ≤ 5) (s : RState)
    (hal : s.alive = true) (hi : Inv tm pool s) (hg : GoodStack (instStack s.vals tm)) (cs : Nat) (c : Ctx) :
    (emit tm pool s cs c).2 = shouldReceive (instStack s.vals tm) (pool cs) c ∧
    Inv tm pool (emit tm pool s cs c).1 ∧ (emit tm pool s cs c).1.vals = s.vals ∧ (emit tm pool s cs c).1.alive = true := by
  unfold emit
  simp only [hal, Bool.not_true, Bool.false_eq_true, if_false]
  by_cases hl : (pool cs).level ≤ s.maxLevel
  · simp only [hl, if_true]
    -- the interest used is the stack's interest for the current values
    have hint : (interestOf tm pool s cs).2 = stackInterest (instStack s.vals tm) (pool cs) ∧
        (interestOf tm pool s cs).1.vals = s.vals ∧ (interestOf tm pool s cs).1.t = s.t ∧
        (interestOf tm pool s cs).1.maxLevel = s.maxLevel ∧ (interestOf tm pool s cs).1.alive = s.alive ∧
        (∀ cs' i, (interestOf tm pool s cs).1.cache.lookup cs' = some i → i = stackInterest (instStack s.vals tm) (pool cs')) := by
      unfold interestOf
      cases hc : s.cache.lookup cs with
      | some i => exact ⟨hi.cache cs i hc, rfl, rfl, rfl, rfl, hi.cache⟩
      | none =>
        refine ⟨rfl, rfl, rfl, rfl, rfl, ?_⟩
        intro cs' i h
        simp only [List.lookup_cons] at h
        by_cases e : cs' == cs
        · simp only [e] at h; cases h; rw [beq_iff_eq.mp e]
        · simp only [e] at h; exact hi.cache cs' i h
    obtain ⟨h1, h2, h3, h4, h5, h6⟩ := hint
    obtain ⟨r1, r2⟩ := C07.isolation_partial (instStack s.vals tm) hg.ne hg.wf hg.honest s.t hi.bits (pool cs) c
    have hE : emitEventI (interestOf tm pool s cs).2 (instStack (interestOf tm pool s cs).1.vals tm) (interestOf tm pool s cs).1.t (pool cs) c
        = emitEvent (instStack s.vals tm) s.t (pool cs) c := by
      rw [h1, h2, h3, ← emitEvent_eq]
    simp only [hE]
    refine ⟨r1, ⟨?_, ?_, r2⟩, h2, ?_⟩
    · intro cs' i hc; rw [h2]; exact h6 cs' i hc
    · show (interestOf tm pool s cs).1.maxLevel = hintRank (instStack (interestOf tm pool s cs).1.vals tm)
      rw [h2, h4]; exact hi.ml
    · show (interestOf tm pool s cs).1.alive = true
      rw [h5]; exact hal
  · simp only [hl, if_false]
    refine ⟨?_, hi, trivial, hal⟩
    -- the level is above MAX_LEVEL = the stack's hint: nobody wants it
    cases hsr : shouldReceive (instStack s.vals tm) (pool cs) c with
    | nil => rfl
    | cons x xs =>
      exfalso
      have hne' : shouldReceive (instStack s.vals tm) (pool cs) c ≠ [] := by rw [hsr]; simp
      apply hl
      rw [hi.ml]
      unfold hintRank
      cases hh : stackHint (instStack s.vals tm) with
      | none => simpa using hpool cs
      | some i => simpa using stack_hint_sound _ hg.honest hg.built (pool cs) c i hh hne'

/-- what the extracted `Handle::modify` must look like for the proofs below -/
theorem modify_order : TM.Gen.ReloadOrder.modifySteps = ["upgrade", "write", "mutate", "unlock", "rebuild"] ∧
    TM.Gen.ReloadOrder.reloadIsModifyAssign = true := by decide

/-- **C12.reload_establishes** — `reload` on a live collector returns Ok having mutated under the
write lock, released it, and rebuilt: the invariant holds for the NEW value WHATEVER was cached
before (callsites cached `always` or `never` under the old value are recomputed; MAX_LEVEL is
recomputed) -/
theorem reload_establishes (tm : List Tmpl) (pool : Nat → Meta) (s : RState) (hal : s.alive = true)
    (hb : s.t.bits = Bits.clean) (h : Nat) (e : FExpr) :
    let r := reload tm pool s h e
    r.failed = false ∧ r.torn = false ∧ r.stuck = false ∧ r.locked = false ∧
    r.s.vals = s.vals.set h e ∧ r.s.alive = true ∧ Inv tm pool r.s ∧
    (r.s.cache.map (·.1)) = s.cache.map (·.1) := by
  simp only [reload, modify_order.1, List.foldl_cons, List.foldl_nil, modStep, hal,
    Bool.or_self, Bool.false_eq_true, if_false, if_true, beq_self_eq_true, Bool.not_true, Bool.or_false,
    show (("write" : String) == "upgrade") = false by decide,
    show (("mutate" : String) == "upgrade") = false by decide,
    show (("mutate" : String) == "write") = false by decide,
    show (("unlock" : String) == "upgrade") = false by decide,
    show (("unlock" : String) == "write") = false by decide,
    show (("unlock" : String) == "mutate") = false by decide,
    show (("rebuild" : String) == "upgrade") = false by decide,
    show (("rebuild" : String) == "write") = false by decide,
    show (("rebuild" : String) == "mutate") = false by decide,
    show (("rebuild" : String) == "unlock") = false by decide]
  refine ⟨trivial, trivial, trivial, trivial, rfl, rfl, ⟨?_, rfl, hb⟩, ?_⟩
  · intro cs i hc
    simp only [rebuild] at hc ⊢
    exact lookup_map_fst s.cache (fun k => stackInterest (instStack (s.vals.set h e) tm) (pool k)) cs i hc
  · simp [rebuild, List.map_map, Function.comp_def]

/-- **C12.gone_is_error** — a handle whose collector is gone reports an error and changes nothing -/
theorem gone_is_error (tm : List Tmpl) (pool : Nat → Meta) (s : RState) (hal : s.alive = false) (h : Nat) (e : FExpr) :
    (reload tm pool s h e).failed = true ∧ (reload tm pool s h e).s = s := by
  simp only [reload, modify_order.1, List.foldl_cons, List.foldl_nil, modStep, hal,
    Bool.or_self, Bool.false_eq_true, if_false, if_true, beq_self_eq_true, Bool.true_or, Bool.or_false, and_self]

/-! ### histories -/

/-- the fixed part of the template is well formed: distinct filter ids, honest fixed filters -/
structure GoodT (tm : List Tmpl) : Prop where
  ne : tm ≠ []
  wf : (tm.filterMap fun | .fixed nd => fidOf nd | .rglob _ => none | .rfilt _ fid _ => some fid).Nodup
  honest : ∀ nd, Tmpl.fixed nd ∈ tm → match nd with
    | .glob g => C08.Honest g ∧ C08.Built g
    | .filt _ f _ => C08.Honest f ∧ C08.Built f
    | .plain _ => True

/-- every installed value is honest (C08: closures' hints bound what they enable) -/
def GoodV (vals : List FExpr) : Prop := ∀ e ∈ vals, C08.Honest e ∧ C08.Built e

theorem getD_good (vals : List FExpr) (hv : GoodV vals) (h : Nat) :
    C08.Honest (vals.getD h .optNone) ∧ C08.Built (vals.getD h .optNone) := by
  simp only [List.getD_eq_getElem?_getD]
  cases hg : vals[h]? with
  | none => exact ⟨trivial, trivial⟩
  | some e => exact hv e (List.mem_of_getElem? hg)

theorem good_inst (tm : List Tmpl) (ht : GoodT tm) (vals : List FExpr) (hv : GoodV vals) :
    GoodStack (instStack vals tm) := by
  refine ⟨by simpa [instStack] using ht.ne, ?_, ?_, ?_⟩
  · have : fids (instStack vals tm) =
        tm.filterMap fun | .fixed nd => fidOf nd | .rglob _ => none | .rfilt _ fid _ => some fid := by
      simp only [fids, instStack, List.filterMap_map]
      apply filterMap_congr'
      intro t _
      cases t <;> rfl
    simpa [WF, this] using ht.wf
  · intro nd hnd
    obtain ⟨t, ht', rfl⟩ := List.mem_map.mp hnd
    cases t with
    | fixed nd =>
      have := ht.honest nd ht'
      cases nd with
      | plain n => trivial
      | glob g => exact this.1
      | filt fid f n => exact this.1
    | rglob h => exact (getD_good vals hv h).1
    | rfilt h fid n => exact (getD_good vals hv h).1
  · intro nd hnd
    obtain ⟨t, ht', rfl⟩ := List.mem_map.mp hnd
    cases t with
    | fixed nd =>
      have := ht.honest nd ht'
      cases nd with
      | plain n => trivial
      | glob g => exact this.2
      | filt fid f n => exact this.2
    | rglob h => exact (getD_good vals hv h).2
    | rfilt h fid n => exact (getD_good vals hv h).2

theorem goodV_set (vals : List FExpr) (hv : GoodV vals) (h : Nat) (e : FExpr) (he : C08.Honest e ∧ C08.Built e) :
    GoodV (vals.set h e) := by
  intro x hx
  rcases List.mem_or_eq_of_mem_set hx with hx | rfl
  · exact hv x hx
  · exact he

/-- the values a history installs are honest -/
def OpGood : Op → Prop
  | .reload _ e => C08.Honest e ∧ C08.Built e
  | _ => True

def outOK (tm : List Tmpl) (pool : Nat → Meta) (s : RState) : Op → Out → Prop
  | .emit cs c, .received l => s.alive = true → l = shouldReceive (instStack s.vals tm) (pool cs) c
  | .reload _ _, .reloaded ok => ok = s.alive
  | .current, .level l => l = s.maxLevel
  | _, _ => True

theorem step_inv (tm : List Tmpl) (pool : Nat → Meta) (hpool : ∀ cs, (pool cs).level ≤ 5) (ht : GoodT tm)
    (s : RState) (hv : GoodV s.vals) (hi : s.alive = true → Inv tm pool s) (op : Op) (hop : OpGood op) :
    GoodV (step tm pool s op).1.vals ∧
    ((step tm pool s op).1.alive = true → Inv tm pool (step tm pool s op).1) ∧ outOK tm pool s op (step tm pool s op).2 := by
  cases op with
  | emit cs c =>
    simp only [step, outOK]
    by_cases hal : s.alive = true
    · obtain ⟨a, b, c', _⟩ := emit_spec tm pool hpool s hal (hi hal) (good_inst tm ht _ hv) cs c
      exact ⟨by rw [c']; exact hv, fun _ => b, fun _ => a⟩
    · have : s.alive = false := by simpa using hal
      simp [emit, this, hv]
  | reload h e =>
    simp only [step, outOK]
    by_cases hal : s.alive = true
    · obtain ⟨a, _, _, _, v, _, g, _⟩ := reload_establishes tm pool s hal (hi hal).bits h e
      exact ⟨by rw [v]; exact goodV_set _ hv h e hop, fun _ => g, by simp [a, hal]⟩
    · have hal' : s.alive = false := by simpa using hal
      obtain ⟨a, b⟩ := gone_is_error tm pool s hal' h e
      rw [b]
      exact ⟨hv, fun x => absurd x hal, by simp [a, hal']⟩
  | current => exact ⟨hv, hi, rfl⟩
  | dropCollector => exact ⟨hv, by simp [step], trivial⟩

def run (tm : List Tmpl) (pool : Nat → Meta) : RState → List Op → RState × List Out
  | s, [] => (s, [])
  | s, op :: ops =>
    let r := step tm pool s op
    let rest := run tm pool r.1 ops
    (rest.1, r.2 :: rest.2)

/-- every output of the history is what the property demands of the state it was produced in -/
def allOK (tm : List Tmpl) (pool : Nat → Meta) : RState → List Op → Prop
  | _, [] => True
  | s, op :: ops => outOK tm pool s op (step tm pool s op).2 ∧ allOK tm pool (step tm pool s op).1 ops

/-- **C12.after_return** — for EVERY history of emissions (from any callsites, in any contexts),
reloads of any slots to any honest values, and a collector drop: every emission is received by
exactly the layers selected by the values installed by the reloads that RETURNED before it — in
particular a callsite whose interest was cached `always` or `never` under an earlier value is
judged by the new one, in both directions — `LevelFilter::current()` is the new stack's hint, and
`reload` answers Ok exactly while the collector lives -/
theorem after_return (tm : List Tmpl) (pool : Nat → Meta) (hpool : ∀ cs, (pool cs).level ≤ 5) (ht : GoodT tm)
    (vals : List FExpr) (hv : GoodV vals) (ops : List Op) (hops : ∀ op ∈ ops, OpGood op) :
    allOK tm pool (RState.init tm vals) ops := by
  have h0 : (RState.init tm vals).alive = true → Inv tm pool (RState.init tm vals) :=
    fun _ => ⟨by intro cs i h; simp [RState.init] at h, rfl, rfl⟩
  have hv0 : GoodV (RState.init tm vals).vals := hv
  generalize RState.init tm vals = s at h0 hv0
  induction ops generalizing s with
  | nil => trivial
  | cons op rest ih =>
    obtain ⟨v, a, b⟩ := step_inv tm pool hpool ht s hv0 h0 op (hops op (by simp))
    exact ⟨b, ih (fun o ho => hops o (List.mem_cons_of_mem _ ho)) _ a v⟩

/-! ### an emission racing with a reload -/

def layersOf (st : Stack) : List Nat :=
  st.filterMap fun | .plain n => some n | .glob _ => none | .filt _ _ n => some n

theorem deliverPass_clean (st : List Node) : deliverPass st Bits.clean = (Bits.clean, layersOf st) := by
  induction st with
  | nil => rfl
  | cons nd rest ih =>
    cases nd with
    | plain n => simp [deliverPass, ih, layersOf]
    | glob g => simpa [deliverPass, layersOf] using ih
    | filt fid f n =>
      have hd : isDisabled Bits.clean fid = false := rfl
      simp only [deliverPass, hd, Bool.false_eq_true, if_false, ih, layersOf, List.filterMap_cons]

theorem layersOf_inst (tm : List Tmpl) (a b : List FExpr) : layersOf (instStack a tm) = layersOf (instStack b tm) := by
  induction tm with
  | nil => rfl
  | cons t rest ih =>
    cases t with
    | fixed nd => simp only [instStack, List.map_cons, inst, layersOf, List.filterMap_cons] at ih ⊢; rw [ih]
    | rglob h => simpa [instStack, inst, layersOf] using ih
    | rfilt h fid n => simp only [instStack, List.map_cons, inst, layersOf, List.filterMap_cons] at ih ⊢; rw [ih]

theorem always_all (st : Stack) (hg : GoodStack st) (m : Meta) (c : Ctx) (h : stackInterest st m = .always) :
    shouldReceive st m c = layersOf st := by
  obtain ⟨g, f⟩ := (C07.interest_sound st hg.ne hg.honest m).2 h c
  simp only [shouldReceive, g, if_true, layersOf]
  apply filterMap_congr'
  intro nd hnd
  cases nd with
  | plain n => rfl
  | glob g => rfl
  | filt fid fe n => simp [specOf, f fid fe n hnd]

/-- the three reads of an emission that overlaps a reload: MAX_LEVEL, the callsite's interest, and
the stack's filters (each reload::Subscriber read-locks per call, and `modify` changes ONE slot
under the write lock) — each may come from the world before or after the reload -/
def emitMixed (ml : Nat) (i : Interest) (st : Stack) (m : Meta) (c : Ctx) : List Nat :=
  if m.level ≤ ml then (emitEventI i st TState.init m c).2 else []

/-- **C12.racing_old_or_new** — for all eight combinations of "read before / after the reload" the
emission is received by exactly the layers the OLD values select or exactly the layers the NEW
values select — never a mixture -/
theorem racing_old_or_new (tm : List Tmpl) (ht : GoodT tm) (old new : List FExpr) (ho : GoodV old) (hn : GoodV new)
    (m : Meta) (hm : m.level ≤ 5) (c : Ctx)
    (ml : Nat) (hml : ml = hintRank (instStack old tm) ∨ ml = hintRank (instStack new tm))
    (i : Interest) (hi : i = stackInterest (instStack old tm) m ∨ i = stackInterest (instStack new tm) m)
    (st : Stack) (hst : st = instStack old tm ∨ st = instStack new tm) :
    emitMixed ml i st m c = shouldReceive (instStack old tm) m c ∨
    emitMixed ml i st m c = shouldReceive (instStack new tm) m c := by
  -- a level above either world's hint is rejected by that world
  have above : ∀ v : List FExpr, GoodStack (instStack v tm) → ¬ m.level ≤ hintRank (instStack v tm) →
      shouldReceive (instStack v tm) m c = [] := by
    intro v hgv hl
    cases hsr : shouldReceive (instStack v tm) m c with
    | nil => rfl
    | cons x xs =>
      exfalso
      have hne : shouldReceive (instStack v tm) m c ≠ [] := by rw [hsr]; simp
      apply hl
      unfold hintRank
      cases hh : stackHint (instStack v tm) with
      | none => simpa using hm
      | some k => simpa using stack_hint_sound _ hgv.honest hgv.built m c k hh hne
  -- `never` / `always` from a world is that world's verdict; `sometimes` defers to the filters read
  have gO := good_inst tm ht old ho
  have gN := good_inst tm ht new hn
  have viaInterest : ∀ v : List FExpr, GoodStack (instStack v tm) → i = stackInterest (instStack v tm) m →
      (emitEventI i st TState.init m c).2 = shouldReceive (instStack v tm) m c ∨
      (emitEventI i st TState.init m c).2 = shouldReceive st m c := by
    intro v hgv hv
    have gst : GoodStack st := by rcases hst with e | e <;> rw [e] <;> assumption
    cases hc : i with
    | never =>
      left
      rw [hv] at hc
      rw [(C07.interest_sound _ hgv.ne hgv.honest m).1 hc c]
      simp [emitEventI]
    | always =>
      left
      have hc' := hc; rw [hv] at hc'
      rw [always_all _ hgv m c hc']
      have : layersOf (instStack v tm) = layersOf st := by
        rcases hst with e | e <;> rw [e] <;> exact layersOf_inst tm _ _
      simp [emitEventI, TState.init, deliverPass_clean, this]
    | sometimes =>
      right
      obtain ⟨p1, p2⟩ := C07.pass_and_deliver st gst.wf m c
      simp only [emitEventI, TState.init]
      cases hr : (enabledPass m c st.reverse Bits.clean).2 with
      | true => simp [(p1 hr).1, hr]
      | false => simp [(p2 hr).1, hr]
  unfold emitMixed
  by_cases hl : m.level ≤ ml
  · simp only [hl, if_true]
    have viaSt : (emitEventI i st TState.init m c).2 = shouldReceive st m c →
        (emitEventI i st TState.init m c).2 = shouldReceive (instStack old tm) m c ∨
        (emitEventI i st TState.init m c).2 = shouldReceive (instStack new tm) m c := by
      intro h
      rcases hst with e | e
      · left; rw [h, e]
      · right; rw [h, e]
    rcases hi with e | e
    · rcases viaInterest old gO e with h | h
      · exact Or.inl h
      · exact viaSt h
    · rcases viaInterest new gN e with h | h
      · exact Or.inr h
      · exact viaSt h
  · simp only [hl, if_false]
    rcases hml with e | e
    · left; exact (above old gO (e ▸ hl)).symm
    · right; exact (above new gN (e ▸ hl)).symm

/-! ### a reload racing with first-hit registrations on other threads

`Handle::modify` is, per `modify_order`, "mutate under the value's lock, release it, rebuild".  In
C04's transition system (all interleavings of any number of threads, with the lock scope of
`callsite::register` extracted from the source) these are the steps `mutate` and `rebuildCache`.
A callsite that another thread is registering for the first time while the reload runs either is
on the callsite list when the rebuild walks it, or computes its interest after the mutate — because
`register` holds the read lock from "compute" until after "push" (C04.lock_discipline). -/

/-- the lock scope of `callsite::register` and the order inside the writer sections, as extracted now -/
theorem lock_discipline : TM.Gen.RegistryLocks.registerHoldsAcrossPush = true ∧
    TM.Gen.RegistryLocks.rebuildCacheOrder = ["write", "rebuild"] :=
  ⟨C04.lock_discipline.1, C04.lock_discipline.2.2.2.1⟩

/-- **C12.reload_racing_registration** — after EVERY interleaving in which every reload that mutated
has also rebuilt (i.e. has returned), every cached interest — including those of callsites that were
being registered for the first time during the reload — agrees with every live collector's NEW answers -/
theorem reload_racing_registration (U : List TM.Callsite.Cs) (steps : List TM.RegRace.Step)
    (hin : ∀ st ∈ steps, C04.StepIn U st) (hclean : (C04.runCode U steps).dirty = false) :
    let s := C04.runCode U steps
    ∀ cs c, s.alive c = true →
      (s.cache cs = some .never → s.want c cs = .never) ∧ (s.cache cs = some .always → s.want c cs = .always) :=
  (C04.never_stranded U steps hin hclean).1

/-! ### non-vacuity: a concrete template, values and history meet every hypothesis -/

def exTm : List Tmpl := [.fixed (.plain 1), .rglob 0, .rfilt 1 0 2]
def exPool (cs : Nat) : Meta := { target := [], level := cs % 5 + 1, isEvent := true, fields := [] }

example : GoodT exTm := ⟨by simp [exTm], by decide, by
  intro nd h; simp [exTm] at h; subst h; trivial⟩
example : GoodV [.level 3, .level 5] := by
  intro e he; simp at he; rcases he with rfl | rfl <;> exact ⟨trivial, trivial⟩
-- under (global INFO, layer-2 filter TRACE) a DEBUG event (cs 3) reaches nobody and is cached `never`;
-- after reloading the global filter to TRACE it reaches both layers; after reloading layer 2's filter to ERROR only layer 1
example : ((run exTm exPool (RState.init exTm [.level 3, .level 5])
    [.emit 3 0, .reload 0 (.level 5), .emit 3 0, .reload 1 (.level 1), .emit 3 0, .current]).2.map
      fun | .received l => l | .level l => [100 + l] | _ => []) = [[], [], [1, 2], [], [1], [105]] := by decide

end C12
