/-
C01, the compile-time maximum level — "a callsite above the compile-time maximum level is never delivered, one at or below it
is judged by the collectors alone".  Which cargo feature selects which level (tracing/src/level_filters.rs,
`get_max_level_inner`) is extracted on every run; a build with the features `fs` of profile `release?` gets
`staticMax release? fs`.
-/
import TracingModel.Props.C01R
import TracingModel.Gen.StaticMaxLevel
import TracingModel.Props.C02A

namespace C01
open TM.Gen.StaticMaxLevel

/-- the level a build gets: the first feature of the profile's chain that is switched on decides, else the chain's default.
A feature is named by (is it a `release_…` feature, the level in its name). -/
def staticMax (release : Bool) (on : Bool → Nat → Bool) : Nat :=
  let chain := if release then releaseChain else debugChain
  match chain.find? (fun e => on e.1 e.2.1) with
  | some e => e.2.2
  | none => if release then releaseElse else debugElse

/-- **C01.static_level_table** — what level_filters.rs must say NOW: in each profile the chain asks for that profile's own
features (`release_max_level_*` in release builds, `max_level_*` otherwise), from `off` to `debug` in this order, each selecting
the level its name says, and defaults to TRACE -/
theorem static_level_table :
    releaseChain = [(true, 0, 0), (true, 1, 1), (true, 2, 2), (true, 3, 3), (true, 4, 4)] ∧ releaseElse = 5 ∧
    debugChain = [(false, 0, 0), (false, 1, 1), (false, 2, 2), (false, 3, 3), (false, 4, 4)] ∧ debugElse = 5 := by decide

/-- **C01.static_level_of_feature** — a build with exactly one level feature of its own profile gets that level; a feature of
the OTHER profile changes nothing; no feature means TRACE -/
theorem static_level_of_feature (release : Bool) (l : Nat) (hl : l ≤ 4) :
    staticMax release (fun r k => r == release && k == l) = l ∧
    staticMax release (fun r k => r == !release && k == l) = 5 ∧
    staticMax release (fun _ _ => false) = 5 := by
  have h : l = 0 ∨ l = 1 ∨ l = 2 ∨ l = 3 ∨ l = 4 := by omega
  cases release <;> rcases h with h | h | h | h | h <;> subst h <;> decide

/-- **C01.static_level_strictest** — with several features of the profile the strictest (lowest) wins -/
theorem static_level_strictest (release : Bool) (a b : Nat) (ha : a ≤ 4) (hb : b ≤ 4) :
    staticMax release (fun r k => r == release && (k == a || k == b)) = min a b := by
  have h1 : a = 0 ∨ a = 1 ∨ a = 2 ∨ a = 3 ∨ a = 4 := by omega
  have h2 : b = 0 ∨ b = 1 ∨ b = 2 ∨ b = 3 ∨ b = 4 := by omega
  cases release <;> rcases h1 with h | h | h | h | h <;> rcases h2 with g | g | g | g | g <;> subst h <;> subst g <;> decide

/-! ### the process-wide count of live scopes (the shortcut in front of the thread's scoped default) -/

/-- opening and closing a scope update the count of live scopes with ONE atomic operation each (from dispatch.rs on every run) -/
theorem scope_count_is_atomic : TM.Gen.AtomicCounts.scopeOpenIsRmw = true ∧ TM.Gen.AtomicCounts.scopeCloseIsRmw = true :=
  C02.scope_counter_code_facts

/-- … hence, under every interleaving of any number of threads opening and closing scopes, the count reads 0 only when no scope
is live anywhere: the shortcut "no scope anywhere => use the global default" never hides a thread's own collector -/
theorem scope_count_zero_means_no_scope (c0 : Nat) (ths : List Nat) (hnd : ths.Nodup) (kind : Nat → TM.AtomicCount.Kind)
    (hroom : (TM.AtomicCount.decs kind ths).length ≤ c0) (sched : List Nat) (hs : ∀ t ∈ sched, t ∈ ths) :
    let s := TM.AtomicCount.run TM.Gen.AtomicCounts.scopeOpenIsRmw true kind (TM.AtomicCount.start c0) sched
    s.c = 0 ↔ c0 + TM.AtomicCount.finished s (TM.AtomicCount.incs kind ths) = TM.AtomicCount.finished s (TM.AtomicCount.decs kind ths) :=
  C02.fast_path_sound c0 ths hnd kind hroom sched hs

end C01
