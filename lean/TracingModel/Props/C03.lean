/-
C03 — "Span handles drive their collector through a well-formed, balanced protocol"

  For any program that creates, clones, enters, exits, records on, sends across threads and drops
  Span handles (directly, via guards, in_scope, or by instrumenting a future), the collector that
  created a span sees exactly one creation, one clone notification per additional handle, exactly
  one close notification per dropped handle, and every enter matched by one exit on the same
  thread; all of these go to the creating collector regardless of the current default, nothing
  arrives after the last handle's close notification, and a disabled span causes no collector
  calls at all.

Model: Core/SpanHandle.lean (hand-written from tracing/src/span.rs, instrument.rs).
-/
import TracingModel.Core.SpanHandle

namespace C03
open TM.SpanHandle

/-- contribution of one collector call to the handle balance of span `r` -/
def nc (r : Ref) : Call → Int
  | .new c id => if (c, id) = r then 1 else 0
  | .clone c id => if (c, id) = r then 1 else 0
  | .close c id => if (c, id) = r then -1 else 0
  | _ => 0

/-- `#new + #clone_span − #try_close` for span `r` in a call log -/
def bal (r : Ref) (log : List Call) : Int := (log.map (nc r)).sum

def holds (r : Ref) (o : Owner) : Int := if o.ref = some r then 1 else 0

/-- number of live owners (handles, entered guards, instrumented futures) of span `r` -/
def own (r : Ref) (l : List Owner) : Int := (l.map (holds r)).sum

theorem bal_append (r : Ref) (log : List Call) (c : Call) : bal r (log ++ [c]) = bal r log + nc r c := by
  simp [bal, List.sum_append]

theorem own_cons (r : Ref) (o : Owner) (l : List Owner) : own r (o :: l) = holds r o + own r l := by
  simp [own]

theorem take_own (r : Ref) (k : Key) (l : List Owner) (o : Owner) (rest : List Owner)
    (h : take k l = some (o, rest)) : own r l = holds r o + own r rest := by
  induction l generalizing o rest with
  | nil => simp [take] at h
  | cons x xs ih =>
    simp only [take] at h
    by_cases hx : x.key = k
    · simp only [hx, if_true, Option.some.injEq, Prod.mk.injEq] at h
      obtain ⟨rfl, rfl⟩ := h
      exact own_cons r _ _
    · simp only [hx, if_false] at h
      cases ht : take k xs with
      | none => simp [ht] at h
      | some p =>
        obtain ⟨y, rest'⟩ := p
        simp only [ht, Option.some.injEq, Prod.mk.injEq] at h
        obtain ⟨rfl, rfl⟩ := h
        have := ih y rest' ht
        simp only [own_cons, this]; omega

/-! effect of the primitive calls -/

@[simp] theorem doEnter_owners (s : PState) (r : Option Ref) (t : Tid) : (doEnter s r t).owners = s.owners := by
  cases r with
  | none => rfl
  | some p => obtain ⟨c, id⟩ := p; rfl

@[simp] theorem doExit_owners (s : PState) (r : Option Ref) (t : Tid) : (doExit s r t).owners = s.owners := by
  cases r with
  | none => rfl
  | some p => obtain ⟨c, id⟩ := p; rfl

@[simp] theorem doClose_owners (s : PState) (r : Option Ref) : (doClose s r).owners = s.owners := by
  cases r with
  | none => rfl
  | some p => obtain ⟨c, id⟩ := p; rfl

@[simp] theorem doEnter_bal (q : Ref) (s : PState) (r : Option Ref) (t : Tid) : bal q (doEnter s r t).log = bal q s.log := by
  cases r with
  | none => rfl
  | some p => obtain ⟨c, id⟩ := p; simp [doEnter, emit, bal_append, nc]

@[simp] theorem doExit_bal (q : Ref) (s : PState) (r : Option Ref) (t : Tid) : bal q (doExit s r t).log = bal q s.log := by
  cases r with
  | none => rfl
  | some p => obtain ⟨c, id⟩ := p; simp [doExit, emit, bal_append, nc]

theorem doClose_bal (q : Ref) (s : PState) (r : Option Ref) :
    bal q (doClose s r).log = bal q s.log - (if r = some q then 1 else 0) := by
  cases r with
  | none => simp [doClose]
  | some p =>
    obtain ⟨c, id⟩ := p
    simp only [doClose, emit, bal_append, nc]
    by_cases h : (c, id) = q <;> simp [h] <;> omega

theorem currentRef_none (s : PState) (t : Tid) (h : currentOf s t = none) : currentRef s t = (s, none) := by
  unfold currentRef; rw [h]

theorem currentRef_some (s : PState) (t : Tid) (c : Cid) (id : Nat) (h : currentOf s t = some (c, id)) :
    currentRef s t = (emit s (.clone c id), some (c, id)) := by
  unfold currentRef; rw [h]

theorem currentRef_spec (q : Ref) (s : PState) (t : Tid) :
    (currentRef s t).1.owners = s.owners ∧
    bal q (currentRef s t).1.log = bal q s.log + (if (currentRef s t).2 = some q then 1 else 0) := by
  cases h : currentOf s t with
  | none => rw [currentRef_none s t h]; simp
  | some p =>
    obtain ⟨c, id⟩ := p
    rw [currentRef_some s t c id h]
    simp only [emit, bal_append, nc]
    by_cases e : (c, id) = q <;> simp [e]

/-- dropping a handle keeps notifications and owners in step, whatever else is going on -/
theorem dropHandle_delta (q : Ref) (s : PState) (k : Key) :
    bal q (dropHandle s k).log - own q (dropHandle s k).owners = bal q s.log - own q s.owners := by
  simp only [dropHandle]
  cases ht : take k s.owners with
  | none => rfl
  | some p =>
    obtain ⟨o, rest⟩ := p
    simp only []
    by_cases hk : o.kind = .handle
    · simp only [hk, if_true, doClose_bal, doClose_owners]
      have := take_own q k _ o rest ht
      simp only [holds] at this
      by_cases e : o.ref = some q <;> simp [e] at this ⊢ <;> omega
    · simp only [hk, if_false]

/-- the reference-count invariant: for every span, creations + clones − closes seen by the
collector equals the number of owners the program holds -/
def RC (s : PState) : Prop := ∀ r : Ref, bal r s.log = own r s.owners

theorem RC.init (acc : Cid → Nat → Bool) : RC (PState.init acc) := by intro r; rfl

theorem step_rc (s : PState) (op : Op) (h : RC s) : RC (step s op) := by
  intro q
  have hq := h q
  cases op with
  | newSpan t k lvl =>
    simp only [step]
    cases hd : s.dflt t with
    | none => simp only [own_cons, holds]; simpa using hq
    | some c =>
      simp only []
      cases ha : s.accepts c lvl with
      | true =>
        simp only [if_true, emit, bal_append, nc, own_cons, holds]
        by_cases e : (c, s.next c) = q <;> simp [e] <;> omega
      | false =>
        simp only [Bool.false_eq_true, if_false, own_cons, holds]; simpa using hq
  | clone k k2 =>
    simp only [step]
    cases hf : find k s.owners with
    | none => exact hq
    | some o =>
      simp only []
      cases hk : o.kind <;> cases hr : o.ref <;> simp only [] <;> try exact hq
      · simp only [own_cons, holds]; simpa using hq
      · rename_i p; obtain ⟨c, id⟩ := p
        simp only [emit, bal_append, nc, own_cons, holds]
        by_cases e : (c, id) = q <;> simp [e] <;> omega
  | drop k =>
    simp only [step]
    have := dropHandle_delta q s k
    omega
  | enter t k g =>
    simp only [step]
    cases ht : take k s.owners with
    | none => exact hq
    | some p =>
      obtain ⟨o, rest⟩ := p
      simp only []
      by_cases hk : o.kind = .handle
      · simp only [hk, if_true, doEnter_bal, doEnter_owners, own_cons]
        have := take_own q k _ o rest ht
        simp only [holds] at this ⊢; omega
      · simp only [hk, if_false]; exact hq
  | exitTo g k2 =>
    simp only [step]
    cases ht : take g s.owners with
    | none => exact hq
    | some p =>
      obtain ⟨o, rest⟩ := p
      simp only []
      have := take_own q g _ o rest ht
      cases hk : o.kind <;> simp only [] <;> try exact hq
      simp only [doExit_bal, doExit_owners, own_cons, holds] at this ⊢; omega
  | dropGuard g =>
    simp only [step]
    cases ht : take g s.owners with
    | none => exact hq
    | some p =>
      obtain ⟨o, rest⟩ := p
      simp only []
      have := take_own q g _ o rest ht
      cases hk : o.kind <;> simp only [] <;> try exact hq
      simp only [doClose_bal, doClose_owners, doExit_bal, doExit_owners, holds] at this ⊢
      by_cases e : o.ref = some q <;> simp [e] at this ⊢ <;> omega
  | inScope t k =>
    simp only [step]
    cases hf : find k s.owners with
    | none => exact hq
    | some o =>
      simp only []
      by_cases hk : o.kind = .handle
      · simp only [hk, if_true, doExit_bal, doEnter_bal, doExit_owners, doEnter_owners]; exact hq
      · simp only [hk, if_false]; exact hq
  | record k =>
    simp only [step]
    cases hf : find k s.owners with
    | none => exact hq
    | some o =>
      simp only []
      cases hk : o.kind <;> cases hr : o.ref <;> simp only [] <;> try exact hq
      rename_i p; obtain ⟨c, id⟩ := p
      simp only [emit, bal_append, nc]; simpa using hq
  | follows k k2 =>
    simp only [step]
    cases hf : find k s.owners <;> cases hf2 : find k2 s.owners <;> simp only [] <;> try exact hq
    rename_i o o2
    cases hk : o.kind <;> cases hr : o.ref <;> cases hk2 : o2.kind <;> cases hr2 : o2.ref <;> simp only [] <;> try exact hq
    rename_i p p2; obtain ⟨c, id⟩ := p; obtain ⟨c2, id2⟩ := p2
    simp only [emit, bal_append, nc]; simpa using hq
  | followsGuard k k2 =>
    simp only [step]
    cases hf : find k s.owners <;> cases hf2 : find k2 s.owners <;> simp only [] <;> try exact hq
    rename_i o o2
    cases hk : o.kind <;> cases hr : o.ref <;> cases hk2 : o2.kind <;> cases hr2 : o2.ref <;> simp only [] <;> try exact hq
    rename_i p t2 p2; obtain ⟨c, id⟩ := p; obtain ⟨c2, id2⟩ := p2
    simp only [emit, bal_append, nc]; simpa using hq
  | current t k =>
    simp only [step]
    obtain ⟨h1, h2⟩ := currentRef_spec q s t
    simp only [own_cons, holds, h1, h2]
    by_cases e : (currentRef s t).2 = some q <;> simp [e] <;> omega
  | orCurrent t k k2 =>
    simp only [step]
    cases ht : take k s.owners with
    | none => exact hq
    | some p =>
      obtain ⟨o, rest⟩ := p
      simp only []
      have hto := take_own q k _ o rest ht
      by_cases hk : o.kind = .handle
      · simp only [hk, if_true]
        cases hr : o.ref with
        | some r =>
          simp only [own_cons, holds] at hto ⊢
          rw [hr] at hto; omega
        | none =>
          simp only []
          obtain ⟨h1, h2⟩ := currentRef_spec q { s with owners := rest } t
          simp only [own_cons, holds, h1, h2] at hto ⊢
          rw [hr] at hto
          by_cases e : (currentRef { s with owners := rest } t).2 = some q <;> simp [e] at hto ⊢ <;> omega
      · simp only [hk, if_false]; exact hq
  | instrument k f =>
    simp only [step]
    cases ht : take k s.owners with
    | none => exact hq
    | some p =>
      obtain ⟨o, rest⟩ := p
      simp only []
      have := take_own q k _ o rest ht
      by_cases hk : o.kind = .handle
      · simp only [hk, if_true, own_cons, holds] at this ⊢; omega
      · simp only [hk, if_false]; exact hq
  | poll t f =>
    simp only [step]
    cases hf : find f s.owners with
    | none => exact hq
    | some o =>
      simp only []
      by_cases hk : o.kind = .future
      · simp only [hk, if_true, doExit_bal, doEnter_bal, doExit_owners, doEnter_owners]; exact hq
      · simp only [hk, if_false]; exact hq
  | dropFuture t f =>
    simp only [step]
    cases ht : take f s.owners with
    | none => exact hq
    | some p =>
      obtain ⟨o, rest⟩ := p
      simp only []
      have := take_own q f _ o rest ht
      by_cases hk : o.kind = .future
      · simp only [hk, if_true, doClose_bal, doClose_owners, doExit_bal, doExit_owners, doEnter_bal, doEnter_owners, holds] at this ⊢
        by_cases e : o.ref = some q <;> simp [e] at this ⊢ <;> omega
      · simp only [hk, if_false]; exact hq
  | dropFutureHolding t f k =>
    simp only [step]
    cases ht : take f s.owners with
    | none => exact hq
    | some p =>
      obtain ⟨o, rest⟩ := p
      simp only []
      have := take_own q f _ o rest ht
      by_cases hk : o.kind = .future
      · simp only [hk, if_true, doClose_bal, doClose_owners, doExit_bal, doExit_owners]
        have hd := dropHandle_delta q (doEnter { s with owners := rest } o.ref t) k
        simp only [doEnter_bal, doEnter_owners] at hd
        simp only [holds] at this
        by_cases e : o.ref = some q <;> simp [e] at this hd ⊢ <;> omega
      · simp only [hk, if_false]; exact hq
  | intoInner f =>
    simp only [step]
    cases ht : take f s.owners with
    | none => exact hq
    | some p =>
      obtain ⟨o, rest⟩ := p
      simp only []
      have := take_own q f _ o rest ht
      by_cases hk : o.kind = .future
      · simp only [hk, if_true, doClose_bal, doClose_owners, holds] at this ⊢
        by_cases e : o.ref = some q <;> simp [e] at this ⊢ <;> omega
      · simp only [hk, if_false]; exact hq
  | setDefault t c => exact hq

/-- **C03.refcount** — for EVERY finite program over the Span API, run from the empty state under
any collectors, at every point and for every span: the number of creations plus clone
notifications minus close notifications its collector has seen equals the number of live owners
(handles, entered guards, instrumented futures) — hence one creation, one clone per additional
handle, one close per dropped handle, and the balance is zero exactly when all are gone. -/
theorem refcount (acc : Cid → Nat → Bool) (ops : List Op) (r : Ref) :
    bal r (run (PState.init acc) ops).log = own r (run (PState.init acc) ops).owners := by
  have key : ∀ (ops : List Op) (s : PState), RC s → RC (run s ops) := by
    intro ops
    induction ops with
    | nil => intro s h; exact h
    | cons op ops ih => intro s h; exact ih _ (step_rc s op h)
  exact key ops _ (RC.init acc) r

/-- corollary: when every owner of a span is gone, its collector has seen exactly as many closes
as creations + clones (one close per dropped handle, none missing, none extra) -/
theorem closes_match_when_gone (acc : Cid → Nat → Bool) (ops : List Op) (r : Ref)
    (h : own r (run (PState.init acc) ops).owners = 0) :
    bal r (run (PState.init acc) ops).log = 0 := by
  rw [refcount]; exact h

/-- **C03.disabled_silent** — operations on a disabled span (no collector enabled it) cause no
collector call at all: drop, enter, guard drop, in_scope, clone, record, instrument, poll, future drop -/
theorem disabled_silent (s : PState) (k : Key) (o : Owner) (rest : List Owner) (t : Tid) (g : Key)
    (ht : take k s.owners = some (o, rest)) (hf : find k s.owners = some o) (hr : o.ref = none) :
    (step s (.drop k)).log = s.log ∧ (step s (.enter t k g)).log = s.log ∧
    (step s (.dropGuard k)).log = s.log ∧ (step s (.inScope t k)).log = s.log ∧
    (step s (.clone k g)).log = s.log ∧ (step s (.record k)).log = s.log ∧
    (step s (.instrument k g)).log = s.log ∧ (step s (.poll t k)).log = s.log ∧
    (step s (.dropFuture t k)).log = s.log := by
  refine ⟨?_, ?_, ?_, ?_, ?_, ?_, ?_, ?_, ?_⟩
  · simp only [step, dropHandle, ht]; split <;> simp [doClose, hr]
  · simp only [step, ht]; split <;> simp [doEnter, hr]
  · simp only [step, ht]; split <;> simp [doClose, doExit, hr]
  · simp only [step, hf]; split <;> simp [doEnter, doExit, hr]
  · simp only [step, hf]; cases hk : o.kind <;> simp [hr]
  · simp only [step, hf]; cases hk : o.kind <;> simp [hr]
  · simp only [step, ht]; split <;> simp
  · simp only [step, hf]; split <;> simp [doEnter, doExit, hr]
  · simp only [step, ht]; split <;> simp [doClose, doEnter, doExit, hr]

def enterCalls (r : Option Ref) (t : Tid) : List Call := match r with | some (c, id) => [.enter c id t] | none => []
def exitCalls (r : Option Ref) (t : Tid) : List Call := match r with | some (c, id) => [.exit c id t] | none => []
def closeCalls (r : Option Ref) : List Call := match r with | some (c, id) => [.close c id] | none => []

theorem doEnter_log (s : PState) (r : Option Ref) (t : Tid) : (doEnter s r t).log = s.log ++ enterCalls r t := by
  cases r with
  | none => simp [doEnter, enterCalls]
  | some p => obtain ⟨c, id⟩ := p; rfl
theorem doExit_log (s : PState) (r : Option Ref) (t : Tid) : (doExit s r t).log = s.log ++ exitCalls r t := by
  cases r with
  | none => simp [doExit, exitCalls]
  | some p => obtain ⟨c, id⟩ := p; rfl
theorem doClose_log (s : PState) (r : Option Ref) : (doClose s r).log = s.log ++ closeCalls r := by
  cases r with
  | none => simp [doClose, closeCalls]
  | some p => obtain ⟨c, id⟩ := p; rfl

/-- **C03.own_collector** — the calls caused by dropping, entering, exiting, polling or dropping an
owner are addressed to the collector stored IN the handle (the one that created the span) and are a
function of that handle alone: they are the same whatever the acting thread's default collector
is (the default does not occur in these steps) -/
theorem own_collector (s : PState) (k g : Key) (t t' : Tid) (d : Option Cid) :
    (step { s with dflt := update s.dflt t' d } (.drop k)).log = (step s (.drop k)).log ∧
    (step { s with dflt := update s.dflt t' d } (.enter t k g)).log = (step s (.enter t k g)).log ∧
    (step { s with dflt := update s.dflt t' d } (.dropGuard k)).log = (step s (.dropGuard k)).log ∧
    (step { s with dflt := update s.dflt t' d } (.poll t k)).log = (step s (.poll t k)).log ∧
    (step { s with dflt := update s.dflt t' d } (.dropFuture t k)).log = (step s (.dropFuture t k)).log := by
  refine ⟨?_, ?_, ?_, ?_, ?_⟩
  · simp only [step, dropHandle]
    cases take k s.owners with
    | none => rfl
    | some p => obtain ⟨o, rest⟩ := p; simp only []; split <;> simp [doClose_log]
  · simp only [step]
    cases take k s.owners with
    | none => rfl
    | some p => obtain ⟨o, rest⟩ := p; simp only []; split <;> simp [doEnter_log]
  · simp only [step]
    cases take k s.owners with
    | none => rfl
    | some p => obtain ⟨o, rest⟩ := p; simp only []; cases o.kind <;> simp [doClose_log, doExit_log]
  · simp only [step]
    cases find k s.owners with
    | none => rfl
    | some o => simp only []; split <;> simp [doEnter_log, doExit_log]
  · simp only [step]
    cases take k s.owners with
    | none => rfl
    | some p => obtain ⟨o, rest⟩ := p; simp only []; split <;> simp [doClose_log, doEnter_log, doExit_log]

/-- non-vacuity: a program that uses a foreign default, an out-of-order guard drop and a future -/
example :
    let s := run (PState.init (fun c l => if c == 2 then l ≤ 3 else true))
      [.setDefault 0 (some 1), .newSpan 0 0 3, .clone 0 3, .enter 0 0 1, .setDefault 0 (some 2), .current 0 6,
       .newSpan 0 9 3, .instrument 9 2, .poll 1 2, .dropGuard 1, .dropFuture 0 2, .drop 3]
    bal (1, 1) s.log = 0 ∧ bal (2, 1) s.log = 0 ∧ s.log.length ≥ 10 := by decide

/-- **C03.future_drop_releases_inner** — dropping an `Instrumented` future whose inner future owns a
span handle releases that handle exactly once — one `try_close` to the inner handle's OWN collector —
whether or not the instrumenting span is enabled (a disabled outer span contributes no call at all,
but the inner drop still happens); with an enabled outer span it happens inside that span's
enter/exit pair, and the outer handle's close comes last. -/
theorem future_drop_releases_inner (s : PState) (t : Tid) (f k : Key) (o oi : Owner) (rest resti : List Owner)
    (ht : take f s.owners = some (o, rest)) (hf : o.kind = .future)
    (hti : take k rest = some (oi, resti)) (hi : oi.kind = .handle) :
    (step s (.dropFutureHolding t f k)).log =
      s.log ++ enterCalls o.ref t ++ closeCalls oi.ref ++ exitCalls o.ref t ++ closeCalls o.ref := by
  simp only [step, ht, hf, if_true, doClose_log, doExit_log, dropHandle, doEnter_owners, hti, hi, doEnter_log]

/-- non-vacuity: a disabled outer span (collector 2 rejects rank 4) around an inner future that owns an
enabled handle: the inner close is there, nothing else is -/
example :
    let s0 := run (PState.init (fun c l => if c == 2 then l ≤ 3 else true))
      [.setDefault 0 (some 2), .newSpan 0 0 4, .setDefault 0 (some 1), .newSpan 0 3 3, .instrument 0 2]
    (step s0 (.dropFutureHolding 0 2 3)).log = s0.log ++ [.close 1 1] := by decide

end C03
