/-
C05 — "A registry span closes exactly once, after its last reference and last child"

  With the span registry, a span is reported closed to every layer exactly once, at the moment
  the last handle to it has been dropped, it is no longer entered on any thread, and all of its
  children have closed - never earlier and never twice - with children closing before their
  parent. While any layer is handling that close the span's stored data is still readable;
  afterwards the span is gone, none of its stored data is ever visible to a later span that
  reuses its storage, and two live spans never share an id.

Model: Core/Registry.lean.  Specification (count-free, for the judge): Spec/RegistrySpec.lean.
-/
import TracingModel.Core.Registry

namespace C05
open TM.Registry

/-- structural invariant: a cleared slot has reference count 0 and no parent; the close log has no
duplicates and lists only cleared slots -/
structure Inv (s : RState) : Prop where
  cleared : ∀ (id : Sid) (sl : Slot), s.slots[id]? = some sl → sl.present = false → sl.refs = 0
  logged : ∀ (id : Sid), id ∈ s.closed → ∃ sl : Slot, s.slots[id]? = some sl ∧ sl.present = false
  nodup : s.closed.Nodup

theorem Inv.init : Inv RState.init := ⟨by simp [RState.init], by simp [RState.init], by simp [RState.init]⟩

private theorem getElem?_setSlot (s : RState) (i j : Sid) (sl : Slot) :
    (setSlot s i sl).slots[j]? = if i = j ∧ i < s.slots.length then some sl else s.slots[j]? := by
  simp only [setSlot, List.getElem?_set]
  by_cases h : i = j
  · subst h
    by_cases hl : i < s.slots.length
    · simp [hl]
    · simp [hl]
  · simp [h]

private theorem inv_setSlot_present (s : RState) (h : Inv s) (i : Sid) (sl old : Slot)
    (ho : s.slots[i]? = some old) (hop : old.present = true) (hp : sl.present = true) :
    Inv (setSlot s i sl) := by
  have hlt : i < s.slots.length := by
    rcases List.getElem?_eq_some_iff.mp ho with ⟨hl, _⟩; exact hl
  refine ⟨?_, ?_, h.nodup⟩
  · intro id x hx hxp
    rw [getElem?_setSlot] at hx
    by_cases e : i = id ∧ i < s.slots.length
    · rw [if_pos e] at hx
      cases hx; rw [hp] at hxp; cases hxp
    · rw [if_neg e] at hx
      exact h.cleared id x hx hxp
  · intro id hid
    obtain ⟨x, hx, hxp⟩ := h.logged id hid
    have hne : i ≠ id := by
      intro e; subst e; rw [ho] at hx; cases hx; rw [hop] at hxp; cases hxp
    refine ⟨x, ?_, hxp⟩
    rw [getElem?_setSlot]; simp [hne, hx]

private theorem inv_cloneRef (s : RState) (h : Inv s) (id : Sid) : Inv (cloneRef s id) := by
  simp only [cloneRef]
  cases hs : s.slots[id]? with
  | none => exact h
  | some sl =>
    simp only []
    by_cases h0 : sl.refs = 0
    · simp only [h0, if_true]; exact h
    · simp only [h0, if_false]
      have hpres : sl.present = true := by
        cases hp : sl.present with
        | true => rfl
        | false => exact absurd (h.cleared id sl hs hp) h0
      exact inv_setSlot_present s h id _ sl hs hpres hpres

/-- `try_close` (with its cascade) preserves the invariant: it logs a span only when it clears it,
and a cleared span (reference count 0) is never logged again -/
theorem tryClose_inv (fuel : Nat) (s : RState) (t : Tid) (id : Sid) (h : Inv s) : Inv (tryClose fuel s t id) := by
  induction fuel generalizing s id with
  | zero => exact h
  | succ n ih =>
    simp only [tryClose]
    cases hs : s.slots[id]? with
    | none => exact h
    | some sl =>
      simp only []
      by_cases h0 : sl.refs = 0
      · simp only [h0, if_true]; exact h
      · simp only [h0, if_false]
        have hpres : sl.present = true := by
          cases hp : sl.present with
          | true => rfl
          | false => exact absurd (h.cleared id sl hs hp) h0
        by_cases h1 : sl.refs > 1
        · simp only [h1, if_true]
          exact inv_setSlot_present s h id _ sl hs hpres hpres
        · simp only [h1, if_false]
          have hlt : id < s.slots.length := by
            rcases List.getElem?_eq_some_iff.mp hs with ⟨hl, _⟩; exact hl
          have hnot : id ∉ s.closed := by
            intro hin
            obtain ⟨x, hx, hxp⟩ := h.logged id hin
            rw [hs] at hx; cases hx; rw [hpres] at hxp; cases hxp
          have hinv1 : Inv { (setSlot s id { refs := 0, parent := none, present := false }) with closed := s.closed ++ [id] } := by
            refine ⟨?_, ?_, ?_⟩
            · intro j x hx hxp
              have hx' : (setSlot s id { refs := 0, parent := none, present := false }).slots[j]? = some x := hx
              rw [getElem?_setSlot] at hx'
              by_cases e : id = j ∧ id < s.slots.length
              · rw [if_pos e] at hx'
                cases hx'; rfl
              · rw [if_neg e] at hx'
                exact h.cleared j x hx' hxp
            · intro j hj
              simp only [List.mem_append, List.mem_singleton] at hj
              show ∃ sl', (setSlot s id { refs := 0, parent := none, present := false }).slots[j]? = some sl' ∧ sl'.present = false
              rw [getElem?_setSlot]
              by_cases e : id = j
              · subst e; simp [hlt]
              · rcases hj with hj | hj
                · obtain ⟨x, hx, hxp⟩ := h.logged j hj
                  exact ⟨x, by simp [e, hx], hxp⟩
                · exact absurd hj.symm e
            · show (s.closed ++ [id]).Nodup
              rw [List.nodup_append]
              refine ⟨h.nodup, by simp, ?_⟩
              intro a ha b hb
              simp only [List.mem_singleton] at hb
              subst hb
              intro e; subst e; exact hnot ha
          cases hpar : sl.parent with
          | none => exact hinv1
          | some p =>
            simp only []
            cases hd : s.dflt t with
            | own => exact ih _ p hinv1
            | noneD => exact hinv1

theorem step_inv (s : RState) (op : Op) (h : Inv s) : Inv (step s op) := by
  cases op with
  | newSpan t k =>
    simp only [step, newSpan]
    have h1 : Inv (refParent s (resolveParent s t k)) := by
      cases hp : resolveParent s t k with
      | none => exact h
      | some p => exact inv_cloneRef s h p
    generalize refParent s (resolveParent s t k) = s1 at h1
    refine ⟨?_, ?_, h1.nodup⟩
    · intro j x hx hxp
      simp only [] at hx
      by_cases hj : j < s1.slots.length
      · rw [List.getElem?_append_left hj] at hx; exact h1.cleared j x hx hxp
      · rw [List.getElem?_append_right (Nat.le_of_not_lt hj)] at hx
        cases hk : j - s1.slots.length with
        | zero => rw [hk] at hx; simp at hx; subst hx; cases hxp
        | succ m => rw [hk] at hx; simp at hx
    · intro j hj
      obtain ⟨x, hx, hxp⟩ := h1.logged j hj
      have hlt : j < s1.slots.length := (List.getElem?_eq_some_iff.mp hx).1
      exact ⟨x, by simp only []; rw [List.getElem?_append_left hlt]; exact hx, hxp⟩
  | cloneHandle id => exact inv_cloneRef s h id
  | dropHandle t id => exact tryClose_inv _ s t id h
  | enter t id =>
    simp only [step, enter]
    have h1 : Inv { s with stacks := update s.stacks t (push (s.stacks t) id).1 } := ⟨h.cleared, h.logged, h.nodup⟩
    split
    · exact inv_cloneRef _ h1 id
    · exact h1
  | exit t id =>
    simp only [step, TM.Registry.exit]
    have h1 : Inv { s with stacks := update s.stacks t (pop (s.stacks t) id).1 } := ⟨h.cleared, h.logged, h.nodup⟩
    split
    · simp only [closeViaDefault]
      split
      · exact tryClose_inv _ _ t id h1
      · exact h1
    · exact h1
  | setDflt t d => exact ⟨h.cleared, h.logged, h.nodup⟩

/-- **C05.close_once** — in EVERY history (any threads, any defaults, any order of create, clone,
drop, enter, exit) no span is reported closed twice, and a span that was reported closed is gone
from the registry (its slot is cleared: reference count 0, no parent, data wiped) -/
theorem close_once (ops : List Op) :
    (ops.foldl step RState.init).closed.Nodup ∧
    ∀ id ∈ (ops.foldl step RState.init).closed,
      ∃ sl, (ops.foldl step RState.init).slots[id]? = some sl ∧ sl.present = false ∧ sl.refs = 0 := by
  have key : ∀ (ops : List Op) (s : RState), Inv s → Inv (ops.foldl step s) := by
    intro ops
    induction ops with
    | nil => intro s h; exact h
    | cons op ops ih => intro s h; exact ih _ (step_inv s op h)
  have h := key ops _ Inv.init
  refine ⟨h.nodup, ?_⟩
  intro id hid
  obtain ⟨sl, hs, hp⟩ := h.logged id hid
  exact ⟨sl, hs, hp, h.cleared id sl hs hp⟩

/-- **C05.children_first** — when a close cascades, the child is logged before its parent:
one `try_close` on a child whose parent holds only the child's reference -/
example :
    let s := [Op.newSpan 0 .root, .newSpan 0 (.explicit 0), .dropHandle 0 0, .dropHandle 0 1].foldl step RState.init
    s.closed = [1, 0] := by decide

/-- **C05.f2_witness** — the full statement is false when a slot is cleared while the thread has no
default collector: the child closes, but the parent's reference is released through
`get_default()` = `NoCollector`, so the parent is never reported closed although it has no
handle, is not entered and has no open child (finding F2). -/
theorem f2_witness :
    let s := [Op.newSpan 0 .root, .newSpan 0 (.explicit 0), .dropHandle 0 0, .setDflt 0 .noneD, .dropHandle 0 1].foldl step RState.init
    s.closed = [1] ∧ (s.slots[0]?).map (·.present) = some true ∧ (s.slots[0]?).map (·.refs) = some 1 := by decide

end C05
