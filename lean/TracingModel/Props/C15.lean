/-
C15 — "The non-blocking writer neither loses, duplicates nor reorders accepted lines"

  Every buffer the non-blocking writer accepts is written to the underlying writer exactly once,
  whole, and in the order accepted (per producer, and consistent with one total order); in lossy
  mode the number written plus the reported dropped count equals the number offered, in non-lossy
  mode nothing is dropped and producers wait instead. A failed write of one line affects only that
  line, and dropping the worker guard writes out and flushes everything accepted before the drop
  and releases the underlying writer.

Model: Core/NonBlocking.lean — a transition system over the channel operations and the underlying
writer's call completions, for ANY number of producers and lines, any capacity, both modes, every
interleaving and every fault script (a history is the list of steps in the order they happened).
Two facts it depends on are extracted from non_blocking.rs / worker.rs on every run.
-/
import TracingModel.Core.NonBlocking
import TracingModel.Lemmas.AtomicCount

namespace C15
open TM.NonBlocking TM.Gen.NonBlockingFacts

/-- what the source must say NOW -/
theorem code_facts :
    lossyCountsEveryFailure = true ∧ flushErrorMasksTerminal = false ∧ nonLossyBlockingSend = true ∧
    workOrder = ["recv", "try_recv", "flush"] ∧ writeErrorReturnsEarly = true ∧ terminalDropsWriterAndExits = true ∧
    errorKeepsLooping = true := by decide

def good : Facts := { countsEveryFailure := true, flushMasksTerminal := false }
theorem codeFacts_good : codeFacts = good := by
  simp [codeFacts, good, code_facts.1, code_facts.2.1]

def current (s : S) : List Nat := match s.w with | .atWrite id _ => [id] | _ => []

structure Inv (s : S) : Prop where
  fifo : s.taken ++ queueLines s.queue = s.accepted
  cur : s.outcomes.map (·.1) ++ current s = s.taken
  acct : (s.lossy = true → s.offered = s.accepted.length + s.dropped ∧ s.refused = 0) ∧
         (s.lossy = false → s.offered = s.accepted.length + s.refused ∧ s.dropped = 0)
  bound : s.queue.length ≤ s.cap
  exitedW : s.w = .exited → s.writerDropped = true

theorem queueLines_append (a b : List Msg) : queueLines (a ++ b) = queueLines a ++ queueLines b := by
  simp [queueLines, List.filterMap_append]

theorem Inv.init (cap : Nat) (lossy : Bool) : Inv (S.init cap lossy) :=
  ⟨rfl, rfl, ⟨fun _ => ⟨rfl, rfl⟩, fun _ => ⟨rfl, rfl⟩⟩, Nat.zero_le _, by intro h; cases h⟩

/-- the worker waking up (it is not holding a line) keeps the invariant -/
theorem wake_inv (s : S) (h : Inv s) (hw : current s = []) (hx : s.w ≠ .exited) : Inv (wake s) := by
  unfold wake
  split
  · rename_i id rest hwi hq
    exact ⟨by simpa [hq, queueLines] using h.fifo, by simp [current, ← h.cur, hwi], h.acct,
      by have := h.bound; simp [hq] at this ⊢; omega, by simp⟩
  · rename_i rest hwi hq
    exact ⟨by simpa [hq, queueLines] using h.fifo, by simpa [current, hwi] using h.cur, h.acct,
      by have := h.bound; simp [hq] at this ⊢; omega, by simp⟩
  · rename_i id rest hwi hq
    exact ⟨by simpa [hq, queueLines] using h.fifo, by simp [current, ← h.cur, hwi], h.acct,
      by have := h.bound; simp [hq] at this ⊢; omega, by simp⟩
  · rename_i rest hwi hq
    exact ⟨by simpa [hq, queueLines] using h.fifo, by simpa [current, hwi] using h.cur, h.acct,
      by have := h.bound; simp [hq] at this ⊢; omega, by simp⟩
  · exact h

/-- the try_recv loop after a finished write (the finished line is already in `outcomes`) -/
theorem next_inv (s : S) (hf : s.taken ++ queueLines s.queue = s.accepted) (hc : s.outcomes.map (·.1) = s.taken)
    (ha : (s.lossy = true → s.offered = s.accepted.length + s.dropped ∧ s.refused = 0) ∧
          (s.lossy = false → s.offered = s.accepted.length + s.refused ∧ s.dropped = 0))
    (hb : s.queue.length ≤ s.cap) : Inv (next s) := by
  unfold next
  split
  · rename_i id rest hq
    exact ⟨by simpa [hq, queueLines] using hf, by simp [current, hc], ha, by simp [hq] at hb ⊢; omega, by simp⟩
  · rename_i rest hq
    exact ⟨by simpa [hq, queueLines] using hf, by simpa [current] using hc, ha, by simp [hq] at hb ⊢; omega, by simp⟩
  · rename_i hq
    exact ⟨by simpa [hq] using hf, by simpa [current] using hc, ha, by simp [hq], by simp⟩

/-- every step (with the behaviour the source has now) preserves the invariant -/
theorem step_inv (s : S) (h : Inv s) (op : Op) : Inv (step good s op).1 := by
  cases op with
  | offer id =>
    simp only [step, good]
    by_cases hd : disconnected { s with offered := s.offered + 1 } = true
    · simp only [hd, if_true]
      cases hl : s.lossy with
      | true =>
        simp only [hl, if_true]
        exact ⟨h.fifo, h.cur, ⟨fun _ => by have := (h.acct.1 hl); simp; omega, fun x => by simp at x⟩, h.bound, h.exitedW⟩
      | false =>
        simp only [hl, Bool.false_eq_true, if_false]
        exact ⟨h.fifo, h.cur, ⟨fun x => by simp at x, fun _ => by have := (h.acct.2 hl); simp; omega⟩, h.bound, h.exitedW⟩
    · simp only [hd, Bool.false_eq_true, if_false]
      have hne : s.w ≠ .exited := by simpa [disconnected] using hd
      by_cases hroom : s.queue.length < s.cap
      · simp only [hroom, if_true]
        -- enqueue, then the idle worker may take it at once
        by_cases hcur : current s = []
        · apply wake_inv _ _ (by simpa [current] using hcur) (by simpa using hne)
          refine ⟨by simp [queueLines_append, queueLines, ← h.fifo], by simpa [current] using h.cur, ?_, by simp; omega, by simpa using h.exitedW⟩
          constructor
          · intro hl; have := h.acct.1 hl; simp; omega
          · intro hl; have := h.acct.2 hl; simp; omega
        · -- the worker is holding a line: wake does nothing
          have hw : wake { s with offered := s.offered + 1, queue := s.queue ++ [.line id], accepted := s.accepted ++ [id] } =
              { s with offered := s.offered + 1, queue := s.queue ++ [.line id], accepted := s.accepted ++ [id] } := by
            unfold wake
            cases hww : s.w <;> simp_all [current]
          rw [hw]
          refine ⟨by simp [queueLines_append, queueLines, ← h.fifo], by simpa [current] using h.cur, ?_, by simp; omega, by simpa using h.exitedW⟩
          constructor
          · intro hl; have := h.acct.1 hl; simp; omega
          · intro hl; have := h.acct.2 hl; simp; omega
      · simp only [hroom, if_false]
        cases hl : s.lossy with
        | true =>
          simp only [if_true]
          exact ⟨h.fifo, h.cur, ⟨fun _ => by have := (h.acct.1 hl); simp; omega, fun x => by simp at x⟩, h.bound, h.exitedW⟩
        | false =>
          simp only [Bool.false_eq_true, if_false]
          exact ⟨h.fifo, h.cur, ⟨fun x => by simp [hl] at x, fun _ => by have := (h.acct.2 hl); simpa using this⟩, h.bound, h.exitedW⟩
  | writeDone ok =>
    simp only [step]
    cases hw : s.w with
    | atWrite id first =>
      have hc : s.outcomes.map (·.1) ++ [id] = s.taken := by simpa [current, hw] using h.cur
      cases ok with
      | true =>
        simp only [if_true]
        exact next_inv _ h.fifo (by simpa using hc) h.acct h.bound
      | false =>
        simp only [Bool.false_eq_true, if_false]
        apply wake_inv _ _ (by simp [current]) (by simp)
        exact ⟨h.fifo, by simpa [current] using hc, h.acct, h.bound, by simp⟩
    | idle => simpa [hw] using h
    | atFlush t => simpa [hw] using h
    | exited => simpa [hw] using h
    | lostShutdown => simpa [hw] using h
  | flushDone ok =>
    simp only [step, good]
    cases hw : s.w with
    | atFlush terminal =>
      have hc : s.outcomes.map (·.1) = s.taken := by simpa [current, hw] using h.cur
      cases terminal with
      | true =>
        simp only [if_true, Bool.not_false, Bool.or_true]
        cases ok <;> exact ⟨h.fifo, by simpa [current] using hc, h.acct, h.bound, by simp⟩
      | false =>
        simp only [Bool.false_eq_true, if_false]
        apply wake_inv _ _ (by simp [current]) (by simp)
        cases ok <;> exact ⟨h.fifo, by simpa [current] using hc, h.acct, h.bound, by simp⟩
    | idle => simpa [hw] using h
    | atWrite i f => simpa [hw] using h
    | exited => simpa [hw] using h
    | lostShutdown => simpa [hw] using h
  | dropGuard =>
    simp only [step]
    by_cases hg : (s.guardDropped || disconnected s) = true
    · simpa [hg] using h
    · simp only [hg, Bool.false_eq_true, if_false]
      have hne : s.w ≠ .exited := by
        intro e; simp [disconnected, e] at hg
      by_cases hroom : s.queue.length < s.cap
      · simp only [hroom, if_true]
        by_cases hcur : current s = []
        · apply wake_inv _ _ (by simpa [current] using hcur) (by simpa using hne)
          exact ⟨by simpa [queueLines_append, queueLines] using h.fifo, by simpa [current] using h.cur, h.acct, by simp; omega, by simpa using h.exitedW⟩
        · have hw : wake { s with queue := s.queue ++ [.shutdown], guardDropped := true, acceptedAtDrop := s.accepted.length } =
              { s with queue := s.queue ++ [.shutdown], guardDropped := true, acceptedAtDrop := s.accepted.length } := by
            unfold wake
            cases hww : s.w <;> simp_all [current]
          rw [hw]
          exact ⟨by simpa [queueLines_append, queueLines] using h.fifo, by simpa [current] using h.cur, h.acct, by simp; omega, by simpa using h.exitedW⟩
      · simpa [hroom] using h

theorem inv_reachable (cap : Nat) (lossy : Bool) (ops : List Op) : Inv (run good (S.init cap lossy) ops) := by
  unfold run
  have : ∀ (s : S), Inv s → Inv (ops.foldl (fun s op => (step good s op).1) s) := by
    induction ops with
    | nil => intro s h; exact h
    | cons op rest ih => intro s h; exact ih _ (step_inv s h op)
  exact this _ (Inv.init cap lossy)

/-- what the code does: the model with the facts extracted from the source -/
def runCode (cap : Nat) (lossy : Bool) (ops : List Op) : S := run codeFacts (S.init cap lossy) ops

/-- **C15.fifo_exactly_once** — after EVERY history (any producers, lines, capacity, mode,
interleaving, fault script): the lines the worker has dequeued, followed by those still queued, are
exactly the accepted lines in acceptance order; every dequeued line has exactly one outcome (written
or failed) in that same order, except the one the writer is working on.  So nothing accepted is
lost, duplicated or reordered, and a failed write costs exactly that line. -/
theorem fifo_exactly_once (cap : Nat) (lossy : Bool) (ops : List Op) :
    let s := runCode cap lossy ops
    s.taken ++ queueLines s.queue = s.accepted ∧ s.outcomes.map (·.1) ++ current s = s.taken := by
  have h : Inv (runCode cap lossy ops) := by unfold runCode; rw [codeFacts_good]; exact inv_reachable cap lossy ops
  exact ⟨h.fifo, h.cur⟩

/-- written and failed lines partition the finished ones, each in acceptance order -/
theorem written_in_order (cap : Nat) (lossy : Bool) (ops : List Op) :
    let s := runCode cap lossy ops
    (written s).Sublist s.accepted ∧ (failed s).Sublist s.accepted ∧
    (written s).length + (failed s).length = s.outcomes.length := by
  have h := fifo_exactly_once cap lossy ops
  simp only at h ⊢
  have hsub : ((runCode cap lossy ops).outcomes.map (·.1)).Sublist (runCode cap lossy ops).accepted := by
    rw [← h.1, ← h.2]
    exact ((List.sublist_append_left _ _).trans (List.sublist_append_left _ _))
  refine ⟨?_, ?_, ?_⟩
  · exact ((List.filter_sublist).map _).trans hsub
  · exact ((List.filter_sublist).map _).trans hsub
  · simp only [written, failed, List.length_map]
    have : ∀ (l : List (Nat × Bool)), (l.filter (·.2)).length + (l.filter (!·.2)).length = l.length := by
      intro l; induction l with
      | nil => rfl
      | cons x xs ih => cases hx : x.2 <;> simp [List.filter_cons, hx] <;> omega
    exact this _

/-- **C15.accounting** — lossy: offered = accepted + dropped (every line that was not enqueued is
counted, whether the queue was full or the worker gone); non-lossy: nothing is ever counted as
dropped — a producer either gets in (possibly after waiting) or is told the channel is closed -/
theorem accounting (cap : Nat) (lossy : Bool) (ops : List Op) :
    let s := runCode cap lossy ops
    (lossy = true → s.offered = s.accepted.length + s.dropped) ∧
    (lossy = false → s.dropped = 0 ∧ s.offered = s.accepted.length + s.refused) := by
  have h : Inv (runCode cap lossy ops) := by unfold runCode; rw [codeFacts_good]; exact inv_reachable cap lossy ops
  have hl : (runCode cap lossy ops).lossy = lossy := by
    unfold runCode run
    have : ∀ (l : List Op) (s : S), (l.foldl (fun s op => (step codeFacts s op).1) s).lossy = s.lossy := by
      intro l
      induction l with
      | nil => intro s; rfl
      | cons op rest ih =>
        intro s
        simp only [List.foldl_cons]
        rw [ih]
        cases op with
        | offer id => simp only [step]; repeat' split
                      all_goals (first | rfl | (unfold wake; repeat' split) <;> rfl)
        | writeDone ok => simp only [step]; repeat' split
                          all_goals (first | rfl | (unfold next; repeat' split) <;> rfl | (unfold wake; repeat' split) <;> rfl)
        | flushDone ok => simp only [step]; repeat' split
                          all_goals (first | rfl | (unfold wake; repeat' split) <;> rfl)
        | dropGuard => simp only [step]; repeat' split
                       all_goals (first | rfl | (unfold wake; repeat' split) <;> rfl)
    rw [this]; rfl
  exact ⟨fun e => (h.acct.1 (by rw [hl]; exact e)).1, fun e => ⟨(h.acct.2 (by rw [hl]; exact e)).2, (h.acct.2 (by rw [hl]; exact e)).1⟩⟩

/-- **C15.shutdown_not_masked** — once the worker has dequeued the guard's Shutdown, the flush that
follows ends the worker whatever its result: it drops the underlying writer and leaves (F13) -/
theorem shutdown_not_masked (s : S) (ok : Bool) (h : s.w = .atFlush true) :
    (step codeFacts s (.flushDone ok)).1.w = .exited ∧ (step codeFacts s (.flushDone ok)).1.writerDropped = true := by
  rw [codeFacts_good]
  simp [step, h, good]

/-- **C15.f13_witness** — with the old ending of `work()` (`flush()?; Ok(state)`) a failed flush on
the Shutdown iteration swallows the message: the worker waits again, never drops the writer, and the
guard's rendezvous can only time out -/
theorem f13_witness :
    let old : Facts := { countsEveryFailure := true, flushMasksTerminal := true }
    let s := run old (S.init 4 true) [.offer 1, .writeDone true, .dropGuard, .flushDone true, .flushDone false]
    s.w = .lostShutdown ∧ s.writerDropped = false ∧ s.guardDropped = true ∧ s.queue = [] := by
  decide

/-! ### dropping the guard drains everything accepted before the drop -/

def beforeShutdown (q : List Msg) : List Msg := q.takeWhile (fun m => m != .shutdown)

structure Shut (s : S) : Prop where
  cnt1 : s.queue.count .shutdown ≤ 1
  none : s.guardDropped = false → s.queue.count .shutdown = 0
  pos : s.guardDropped = true →
    (Msg.shutdown ∈ s.queue → s.taken.length + (queueLines (beforeShutdown s.queue)).length = s.acceptedAtDrop) ∧
    (Msg.shutdown ∉ s.queue → s.acceptedAtDrop ≤ s.taken.length)

theorem Shut.congr {s s' : S} (h : Shut s) (hq : s'.queue = s.queue) (ht : s'.taken = s.taken)
    (hg : s'.guardDropped = s.guardDropped) (ha : s'.acceptedAtDrop = s.acceptedAtDrop) : Shut s' :=
  ⟨by rw [hq]; exact h.cnt1, by rw [hq, hg]; exact h.none, by rw [hq, ht, hg, ha]; exact h.pos⟩

/-- taking the head of the queue -/
theorem shut_deq (s s' : S) (m : Msg) (rest : List Msg) (hq : s.queue = m :: rest) (h : Shut s)
    (hq' : s'.queue = rest) (hg : s'.guardDropped = s.guardDropped) (ha : s'.acceptedAtDrop = s.acceptedAtDrop)
    (ht : s'.taken = s.taken ++ (match m with | .line id => [id] | .shutdown => [])) : Shut s' := by
  have hc1 := h.cnt1
  rw [hq] at hc1
  refine ⟨?_, ?_, ?_⟩
  · rw [hq']; cases m <;> simp [List.count_cons] at hc1 ⊢ <;> omega
  · intro hgd
    have := h.none (by rw [← hg]; exact hgd)
    rw [hq] at this
    rw [hq']; cases m <;> simp [List.count_cons] at this ⊢ <;> omega
  · intro hgd
    have hc := h.pos (by rw [← hg]; exact hgd)
    rw [hq', ha, ht]
    cases m with
    | line id =>
      have hb : beforeShutdown (Msg.line id :: rest) = Msg.line id :: beforeShutdown rest := by simp [beforeShutdown]
      constructor
      · intro hm
        have := hc.1 (by rw [hq]; exact List.mem_cons_of_mem _ hm)
        rw [hq, hb] at this
        simp [queueLines] at this ⊢
        omega
      · intro hm
        have : Msg.shutdown ∉ s.queue := by rw [hq]; simp [hm]
        have := hc.2 this
        simp; omega
    | shutdown =>
      have := hc.1 (by rw [hq]; simp)
      rw [hq] at this
      simp [beforeShutdown, queueLines] at this
      have hno : Msg.shutdown ∉ rest := by
        simp [List.count_cons] at hc1
        exact List.count_eq_zero.mp (by omega)
      exact ⟨fun hm => absurd hm hno, fun _ => by simp; omega⟩

theorem wake_shut (s : S) (h : Shut s) : Shut (wake s) := by
  unfold wake
  split
  · rename_i id rest _ hq; exact shut_deq s _ (.line id) rest hq h rfl rfl rfl rfl
  · rename_i rest _ hq; exact shut_deq s _ .shutdown rest hq h rfl rfl rfl (by simp)
  · rename_i id rest _ hq; exact shut_deq s _ (.line id) rest hq h rfl rfl rfl rfl
  · rename_i rest _ hq; exact shut_deq s _ .shutdown rest hq h rfl rfl rfl (by simp)
  · exact h

theorem next_shut (s : S) (h : Shut s) : Shut (next s) := by
  unfold next
  split
  · rename_i id rest hq; exact shut_deq s _ (.line id) rest hq h rfl rfl rfl rfl
  · rename_i rest hq; exact shut_deq s _ .shutdown rest hq h rfl rfl rfl (by simp)
  · exact h.congr rfl rfl rfl rfl

theorem takeWhile_append_stop {α} (p : α → Bool) (q r : List α) (h : ∃ x ∈ q, p x = false) :
    (q ++ r).takeWhile p = q.takeWhile p := by
  induction q with
  | nil => obtain ⟨x, hx, _⟩ := h; cases hx
  | cons y ys ih =>
    simp only [List.cons_append, List.takeWhile_cons]
    cases hy : p y with
    | false => rfl
    | true =>
      simp only [if_true]
      obtain ⟨x, hx, hp⟩ := h
      rcases List.mem_cons.mp hx with e | hx'
      · subst e; rw [hy] at hp; cases hp
      · rw [ih ⟨x, hx', hp⟩]

/-- a line is enqueued behind everything -/
theorem shut_enq_line (s s' : S) (id : Nat) (h : Shut s) (hq : s'.queue = s.queue ++ [.line id]) (ht : s'.taken = s.taken)
    (hg : s'.guardDropped = s.guardDropped) (ha : s'.acceptedAtDrop = s.acceptedAtDrop) : Shut s' := by
  refine ⟨by rw [hq]; simpa [List.count_append] using h.cnt1, by rw [hq, hg]; intro x; simpa [List.count_append] using h.none x, ?_⟩
  intro hgd
  have hc := h.pos (by rw [← hg]; exact hgd)
  rw [hq, ht, ha]
  constructor
  · intro hm
    have hm' : Msg.shutdown ∈ s.queue := by simpa using hm
    have : beforeShutdown (s.queue ++ [.line id]) = beforeShutdown s.queue :=
      takeWhile_append_stop _ _ _ ⟨.shutdown, hm', by simp⟩
    rw [this]; exact hc.1 hm'
  · intro hm
    exact hc.2 (by intro x; exact hm (by simp [x]))

theorem shut_enq_shutdown (s : S) (hI : Inv s) (h : Shut s) (hgd : s.guardDropped = false) :
    Shut { s with queue := s.queue ++ [.shutdown], guardDropped := true, acceptedAtDrop := s.accepted.length } := by
  have hz := h.none hgd
  have hno : Msg.shutdown ∉ s.queue := List.count_eq_zero.mp hz
  refine ⟨by simp [List.count_append, hz], by intro x; simp at x, ?_⟩
  intro _
  constructor
  · intro _
    have hb : beforeShutdown (s.queue ++ [Msg.shutdown]) = s.queue := by
      have : beforeShutdown (s.queue ++ [Msg.shutdown]) = s.queue ++ beforeShutdown [Msg.shutdown] := by
        unfold beforeShutdown
        rw [List.takeWhile_append_of_pos]
        intro x hx
        cases x with
        | line i => rfl
        | shutdown => exact absurd hx hno
      rw [this]; simp [beforeShutdown]
    show s.taken.length + (queueLines (beforeShutdown (s.queue ++ [Msg.shutdown]))).length = s.accepted.length
    rw [hb, ← hI.fifo, List.length_append]
  · intro hm; exact absurd (by simp) hm

theorem step_shut (F : Facts) (s : S) (hI : Inv s) (h : Shut s) (op : Op) : Shut (step F s op).1 := by
  cases op with
  | offer id =>
    simp only [step]
    repeat' split
    all_goals first
      | exact h.congr rfl rfl rfl rfl
      | (apply wake_shut; exact shut_enq_line s _ id h rfl rfl rfl rfl)
  | writeDone ok =>
    simp only [step]
    repeat' split
    all_goals first
      | exact h
      | exact h.congr rfl rfl rfl rfl
      | (apply next_shut; exact h.congr rfl rfl rfl rfl)
      | (apply wake_shut; exact h.congr rfl rfl rfl rfl)
  | flushDone ok =>
    simp only [step]
    repeat' split
    all_goals first
      | exact h
      | exact h.congr rfl rfl rfl rfl
      | (apply wake_shut; exact h.congr rfl rfl rfl rfl)
  | dropGuard =>
    simp only [step]
    split
    · exact h
    · rename_i hg
      split
      · apply wake_shut
        have hgd : s.guardDropped = false := by
          cases hx : s.guardDropped <;> simp_all
        exact shut_enq_shutdown s hI h hgd
      · exact h

/-- the worker reaches a terminal phase only by dequeuing the guard's Shutdown, and at that moment
everything accepted before the drop had already been dequeued -/
structure Term (s : S) : Prop where
  saw : s.sawShutdown = true → s.guardDropped = true ∧ s.acceptedAtDrop ≤ s.taken.length
  term : (s.w = .atFlush true ∨ s.w = .exited ∨ s.w = .lostShutdown) → s.sawShutdown = true

theorem deq_shutdown_facts (s : S) (rest : List Msg) (hq : s.queue = .shutdown :: rest) (h : Shut s) :
    s.guardDropped = true ∧ s.acceptedAtDrop ≤ s.taken.length := by
  have hg : s.guardDropped = true := by
    cases hx : s.guardDropped with
    | true => rfl
    | false => have := h.none hx; rw [hq] at this; simp at this
  have := (h.pos hg).1 (by rw [hq]; simp)
  rw [hq] at this
  simp [beforeShutdown, queueLines] at this
  exact ⟨hg, by omega⟩

theorem wake_term (s : S) (hS : Shut s) (h : Term s) : Term (wake s) := by
  unfold wake
  split
  · rename_i hw hq
    exact ⟨fun x => by have := h.saw x; simp at this ⊢; exact ⟨this.1, by omega⟩, by simp⟩
  · rename_i rest hw hq
    have := deq_shutdown_facts s rest hq hS
    exact ⟨fun _ => by simpa using this, by simp⟩
  · rename_i hw hq
    exact ⟨fun x => by have := h.saw x; simp at this ⊢; exact ⟨this.1, by omega⟩, by simp⟩
  · rename_i rest hw hq
    have := deq_shutdown_facts s rest hq hS
    exact ⟨fun _ => by simpa using this, by simp⟩
  · exact h

theorem next_term (s : S) (hS : Shut s) (h : Term s) : Term (next s) := by
  unfold next
  split
  · exact ⟨fun x => by have := h.saw x; simp at this ⊢; exact ⟨this.1, by omega⟩, by simp⟩
  · rename_i rest hq
    have := deq_shutdown_facts s rest hq hS
    exact ⟨fun _ => by simpa using this, by simp⟩
  · exact ⟨h.saw, by simp⟩

/-- changing fields the invariants do not mention -/
theorem Term.congr {s s' : S} (h : Term s) (h1 : s'.sawShutdown = s.sawShutdown) (h2 : s'.guardDropped = s.guardDropped)
    (h3 : s'.acceptedAtDrop = s.acceptedAtDrop) (h4 : s'.taken = s.taken)
    (h5 : (s'.w = .atFlush true ∨ s'.w = .exited ∨ s'.w = .lostShutdown) → (s.w = .atFlush true ∨ s.w = .exited ∨ s.w = .lostShutdown)) : Term s' :=
  ⟨by rw [h1, h2, h3, h4]; exact h.saw, fun x => by rw [h1]; exact h.term (h5 x)⟩

theorem step_term (s : S) (hI : Inv s) (hS : Shut s) (h : Term s) (op : Op) : Term (step good s op).1 := by
  cases op with
  | offer id =>
    simp only [step, good]
    repeat' split
    all_goals first
      | exact h.congr rfl rfl rfl rfl (fun x => x)
      | (apply wake_term
         · exact shut_enq_line s _ id hS rfl rfl rfl rfl
         · exact h.congr rfl rfl rfl rfl (fun x => x))
  | writeDone ok =>
    simp only [step]
    cases hw : s.w with
    | atWrite id first =>
      cases ok with
      | true =>
        simp only [if_true]
        apply next_term
        · exact hS.congr rfl rfl rfl rfl
        · exact h.congr rfl rfl rfl rfl (fun x => by simp [hw] at x)
      | false =>
        simp only [Bool.false_eq_true, if_false]
        apply wake_term
        · exact hS.congr rfl rfl rfl rfl
        · exact h.congr rfl rfl rfl rfl (fun x => by simp at x)
    | idle => simpa [hw] using h
    | atFlush t => simpa [hw] using h
    | exited => simpa [hw] using h
    | lostShutdown => simpa [hw] using h
  | flushDone ok =>
    simp only [step, good]
    cases hw : s.w with
    | atFlush terminal =>
      have hsaw : terminal = true → s.sawShutdown = true := fun e => h.term (Or.inl (by rw [hw, e]))
      cases terminal with
      | true =>
        simp only [if_true, Bool.not_false, Bool.or_true]
        cases ok <;> exact ⟨h.saw, fun _ => hsaw rfl⟩
      | false =>
        simp only [Bool.false_eq_true, if_false]
        apply wake_term
        · cases ok <;> exact hS.congr rfl rfl rfl rfl
        · cases ok <;> exact h.congr rfl rfl rfl rfl (fun x => by simp at x)
    | idle => simpa [hw] using h
    | atWrite i f => simpa [hw] using h
    | exited => simpa [hw] using h
    | lostShutdown => simpa [hw] using h
  | dropGuard =>
    simp only [step]
    split
    · exact h
    · rename_i hg
      split
      · have hgd : s.guardDropped = false := by cases hx : s.guardDropped <;> simp_all
        have hns : s.sawShutdown = false := by
          cases hx : s.sawShutdown with
          | false => rfl
          | true => have := (h.saw hx).1; rw [hgd] at this; cases this
        apply wake_term
        · exact shut_enq_shutdown s hI hS hgd
        · exact ⟨fun x => by simp [hns] at x, fun x => by have := h.term (by simpa using x); rw [hns] at this; cases this⟩
      · exact h

theorem shut_reachable (cap : Nat) (lossy : Bool) (ops : List Op) :
    Inv (run good (S.init cap lossy) ops) ∧ Shut (run good (S.init cap lossy) ops) ∧ Term (run good (S.init cap lossy) ops) := by
  unfold run
  have : ∀ (s : S), Inv s → Shut s → Term s →
      Inv (ops.foldl (fun s op => (step good s op).1) s) ∧ Shut (ops.foldl (fun s op => (step good s op).1) s) ∧
      Term (ops.foldl (fun s op => (step good s op).1) s) := by
    induction ops with
    | nil => intro s h1 h2 h3; exact ⟨h1, h2, h3⟩
    | cons op rest ih => intro s h1 h2 h3; exact ih _ (step_inv s h1 op) (step_shut good s h1 h2 op) (step_term s h1 h2 h3 op)
  exact this _ (Inv.init cap lossy) ⟨by simp [S.init], by simp [S.init], by simp [S.init]⟩
    ⟨by simp [S.init], by simp [S.init]⟩

/-- **C15.drain_on_drop** — in EVERY history: once the guard has been dropped and the worker has
left, every line accepted before the drop has been handed to the underlying writer (written, or
failed with an I/O error of its own), in order, and the underlying writer has been released -/
theorem drain_on_drop (cap : Nat) (lossy : Bool) (ops : List Op)
    (hg : (runCode cap lossy ops).guardDropped = true) (hw : (runCode cap lossy ops).w = .exited) :
    (runCode cap lossy ops).writerDropped = true ∧
    (runCode cap lossy ops).acceptedAtDrop ≤ (runCode cap lossy ops).outcomes.length ∧
    (runCode cap lossy ops).outcomes.map (·.1) = (runCode cap lossy ops).accepted.take (runCode cap lossy ops).outcomes.length := by
  have h : Inv (runCode cap lossy ops) ∧ Shut (runCode cap lossy ops) ∧ Term (runCode cap lossy ops) := by
    unfold runCode; rw [codeFacts_good]; exact shut_reachable cap lossy ops
  generalize runCode cap lossy ops = s at *
  obtain ⟨hI, hS, hT⟩ := h
  have hcur : s.outcomes.map (·.1) = s.taken := by simpa [current, hw] using hI.cur
  have hlen : s.outcomes.length = s.taken.length := by rw [← hcur]; simp
  refine ⟨hI.exitedW hw, ?_, ?_⟩
  · have := (hT.saw (hT.term (Or.inr (Or.inl hw)))).2
    omega
  · rw [hcur, hlen, ← hI.fifo]; simp

/-! ### the dropped-lines counter under concurrent producers -/

/-- **C15.drop_counter_exact** — producers on any number of threads that fail to enqueue at the same moment: the counter is bumped
by a compare-exchange loop that retries until it wins (`dropCounterRetries`, from non_blocking.rs on every run), one linearizable
increment per failed line; under EVERY interleaving the counter equals its old value plus the number of increments that have
finished — no dropped line goes uncounted (`written + dropped = offered` needs exactly this) -/
theorem drop_counter_exact (c0 : Nat) (ths : List Nat) (hnd : ths.Nodup) (sched : List Nat) (hs : ∀ t ∈ sched, t ∈ ths) :
    let s := TM.AtomicCount.run TM.Gen.NonBlockingFacts.dropCounterRetries true (fun _ => .inc) (TM.AtomicCount.start c0) sched
    s.c = c0 + TM.AtomicCount.finished s ths := by
  have h : TM.Gen.NonBlockingFacts.dropCounterRetries = true := by decide
  rw [h]
  exact TM.AtomicCount.increments_exact c0 ths hnd (fun _ => .inc) (fun _ => rfl) sched hs

/-- with a single compare-exchange whose failure is ignored (read, then try once) two producers failing together count one line -/
theorem drop_counter_lost_witness :
    (TM.AtomicCount.run false true (fun _ => .inc) (TM.AtomicCount.start 0) [0, 1, 0, 1]).c = 1 := TM.AtomicCount.lost_increment_witness

end C15
