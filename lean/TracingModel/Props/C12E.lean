/-
C12, the env-filter extended in place behind a reload handle (`Handle::modify(|f| *f = take(f).add_directive(d))`):
the filter that judges the emissions started after the change is the one built from the extended directive list — a span
callsite the added directive cares about is enabled and every span created from it afterwards carries a matcher of the added
directive (with its level and its value matchers), whatever the list held before and however often the callsite was hit before.
The model's `ad` operation (Core/EnvDynDriver.lean) replaces the tables by `mkEnv true (ds ++ [d])` and keeps the state of the
spans that exist; the real filter is compared with it in the stream `envmodify`.
-/
import TracingModel.Core.EnvDyn

namespace C12
open TM TM.EnvDyn

theorem dedup_append_one (xs : List DDir) (d : DDir) :
    dedup (xs ++ [d]) = (dedup xs).filter (fun x => x.key != d.key) ++ [d] := by
  unfold dedup
  rw [List.foldl_append]
  rfl

/-- a span-scoped directive added to the running filter is in the dynamic table afterwards -/
theorem added_is_in_table (ds : List DDir) (d : DDir) (hd : d.isDynamic = true) (hs : d.isStatic = false) :
    d ∈ (mkEnv true (ds ++ [d])).dynamics := by
  simp only [mkEnv, List.filter_append]
  rw [show List.filter (fun d => d.isDynamic && !(true && d.isStatic)) [d] = [d] by simp [List.filter, hd, hs]]
  rw [dedup_append_one]
  simp

/-- … so a span callsite it cares about is enabled (interest `always`) and every span created from it from now on carries the
added directive's matcher: its level and its value matchers, none of them satisfied yet -/
theorem added_directive_judges_new_spans (ds : List DDir) (d : DDir) (m : CMeta)
    (hd : d.isDynamic = true) (hs : d.isStatic = false) (hm : m.isSpan = true) (hc : caresDyn d m = true) :
    registerCallsite (mkEnv true (ds ++ [d])) m = .always ∧
    ({ fields := d.fields.filterMap (fun f => f.2.map (fun v => (f.1, v, false))), level := d.level } : SMatch)
      ∈ matcherOf (mkEnv true (ds ++ [d])) m := by
  have hin := added_is_in_table ds d hd hs
  have hmem : ({ fields := d.fields.filterMap (fun f => f.2.map (fun v => (f.1, v, false))), level := d.level } : SMatch)
      ∈ matcherOf (mkEnv true (ds ++ [d])) m := by
    unfold matcherOf
    exact List.mem_map.mpr ⟨d, List.mem_filter.mpr ⟨hin, hc⟩, rfl⟩
  refine ⟨?_, hmem⟩
  have hne : (matcherOf (mkEnv true (ds ++ [d])) m).isEmpty = false := by
    cases h : matcherOf (mkEnv true (ds ++ [d])) m with
    | nil => rw [h] at hmem; cases hmem
    | cons _ _ => rfl
  have hdyn : (mkEnv true (ds ++ [d])).hasDynamics = true := by
    unfold Env.hasDynamics
    cases h : (mkEnv true (ds ++ [d])).dynamics with
    | nil => rw [h] at hin; cases hin
    | cons _ _ => rfl
  simp [registerCallsite, caredSpan, hdyn, hm, hne]

/-- the premises are satisfiable: `app[req{id=7}]=debug` added to a filter that held `[req]=off` -/
example : let d : DDir := { target := some (TM.ofString "app"), inSpan := some (TM.ofString "req"), fields := [(TM.ofString "id", some (.int 7))], level := 4 }
    let m : CMeta := { name := TM.ofString "req", target := TM.ofString "app", level := 3, isSpan := true, fields := [TM.ofString "id"] }
    d.isDynamic = true ∧ d.isStatic = false ∧ m.isSpan = true ∧ caresDyn d m = true := by decide

end C12
