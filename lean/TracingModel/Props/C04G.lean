/-
C04, installing the process-wide default while other threads run — "an emission that starts after a
collector's installation has completed is judged by that collector" for `set_global_default`, whose
callers may race.  The transition system and its invariant live in Core/GlobalInit.lean and
Props/C02G.lean; restated here as C04's obligations.
-/
import TracingModel.Props.C04
import TracingModel.Props.C02G

namespace C04
open TM.GlobalInit

/-- the election / publication facts extracted from dispatch.rs on this run are the ones the proofs need -/
theorem global_code_facts :
    codeFacts = C02.good ∧ TM.Gen.GlobalInit.loserGetsError = true ∧ TM.Gen.GlobalInit.readersRequireInitialized = true :=
  C02.global_code_facts

/-- **C04.global_install_completed** — under every interleaving of any number of racing `set_global_default` calls:
once a call has returned Ok, every later read of the global default — by any thread, after any further steps —
yields that caller's collector -/
theorem global_install_completed (coll : Nat → Nat) (sched more : List Nat) (t : Nat)
    (h : (run C02.good coll S.start sched).pc t = .done true) :
    getGlobal (run C02.good coll (run C02.good coll S.start sched) more) = some (coll t) :=
  C02.installed_is_default coll sched more t h

/-- **C04.global_install_once** — and at most one of the racing calls returns Ok -/
theorem global_install_once (coll : Nat → Nat) (sched : List Nat) (t1 t2 : Nat)
    (h1 : (run C02.good coll S.start sched).pc t1 = .done true) (h2 : (run C02.good coll S.start sched).pc t2 = .done true) : t1 = t2 :=
  C02.global_once_interleaved coll sched t1 t2 h1 h2

end C04
