/-
C20 — "The default timestamp is the correct UTC calendar time for every instant"

  The timestamp the formatting layer prints by default is, for every instant the system
  clock can represent, the correct proleptic-Gregorian UTC date and time of that instant in
  RFC 3339 form with microsecond precision (truncated, never rounded up), so that successive
  instants print in non-decreasing order.

Model: TracingModel/Core/DateTime.lean (constants regenerated from datetime.rs into
Gen/DateTimeConsts.lean).  Specification: TracingModel/Spec/Civil.lean.
Every theorem in namespace `C20` is a proof obligation counted by the audit.
-/
import TracingModel.Lemmas.DateTime

namespace C20
open TM.DateTime TM.Spec.Civil TM.Gen.DateTimeConsts

def toCivil (d : DT) : Civil := ⟨d.year, d.month, d.day, d.hour, d.minute, d.second⟩

/-! ### the specification is the calendar (first principles) -/

theorem spec_epoch : daysBeforeYear 1970 = 0 := by decide

theorem spec_year_succ (y : Int) : daysBeforeYear (y + 1) = daysBeforeYear y + daysInYear y := by
  simp only [daysBeforeYear, leapsBefore, daysInYear, isLeap]
  have e : y + 1 - 1 = y := by omega
  rw [e]
  by_cases h4 : y % 4 = 0 <;> by_cases h100 : y % 100 = 0 <;> by_cases h400 : y % 400 = 0 <;>
    simp [h4, h100, h400] <;> omega

theorem spec_month_lengths (y : Int) :
    daysInFirstMonths (isLeap y) 12 = daysInYear y := by
  simp only [daysInYear]; cases isLeap y <;> decide

theorem spec_unix_epoch : unixOfCivil ⟨1970, 1, 1, 0, 0, 0⟩ = 0 := by decide

/-! ### headline -/

private theorem march_lemma (k : Int) :
    daysBeforeYear (k + 2000) + 59 + (if isLeap (k + 2000) then 1 else 0) = marchDays k + 11017 := by
  simp only [daysBeforeYear, leapsBefore, marchDays, isLeap]
  by_cases h4 : (k + 2000) % 4 = 0 <;> by_cases h100 : (k + 2000) % 100 = 0 <;>
    by_cases h400 : (k + 2000) % 400 = 0 <;> simp [h4, h100, h400] <;> omega

private theorem hms (rs : Int) (h0 : 0 ≤ rs) (h1 : rs < 86400) :
    0 ≤ rs.tdiv 3600 ∧ rs.tdiv 3600 < 24 ∧ 0 ≤ (rs.tdiv 60).tmod 60 ∧ (rs.tdiv 60).tmod 60 < 60 ∧
    0 ≤ rs.tmod 60 ∧ rs.tmod 60 < 60 ∧
    rs.tdiv 3600 * 3600 + (rs.tdiv 60).tmod 60 * 60 + rs.tmod 60 = rs := by
  rw [Int.tdiv_eq_ediv_of_nonneg h0, Int.tdiv_eq_ediv_of_nonneg h0, Int.tmod_eq_emod_of_nonneg h0,
    Int.tmod_eq_emod_of_nonneg (by omega : 0 ≤ rs / 60)]
  omega

/-- **C20.correct** — for every instant `t` (seconds relative to the epoch, any integer) and
any sub-second part, the conversion does not panic, yields a valid Gregorian date-time,
and that date-time denotes exactly `t`; the nanosecond field is passed through. -/
theorem correct (t nanos : Int) :
    ∃ d, fromUnix t nanos = some d ∧ (toCivil d).Valid ∧ unixOfCivil (toCivil d) = t ∧ d.nanos = nanos := by
  have hds := daySplit_spec t
  have hcy := cycles_spec (daySplit t).1
  simp only [fromUnix]
  generalize daySplit t = ds at *
  generalize cycles ds.1 = cy at *
  obtain ⟨hrs0, hrs1, ht⟩ := hds
  obtain ⟨hn0, hn1, hdays, hleap⟩ := hcy
  obtain ⟨hh0, hh1, hm0, hm1, hs0, hs1, hsum⟩ := hms ds.2 hrs0 hrs1
  have hnat : (cy.2.toNat : Int) = cy.2 := Int.toNat_of_nonneg hn0
  have hlt : cy.2.toNat < 366 := by omega
  cases hml : monthLoop DAYS_IN_MONTH 0 cy.2 with
  | none =>
    have := monthLoop_table ⟨cy.2.toNat, hlt⟩ true
    simp only [monthLoopOK, hnat, hml] at this
    exact absurd this (by decide)
  | some ml =>
    obtain ⟨m, r⟩ := ml
    simp only [SECS_PER_HOUR, SECS_PER_MIN, MINS_PER_HOUR, SECS_PER_MIN2, YEAR_BASE]
    refine ⟨_, rfl, ?_, ?_, rfl⟩
    · -- validity
      by_cases hw : WRAP_CMP m WRAP_AT = true
      · have := monthLoop_table ⟨cy.2.toNat, hlt⟩ (isLeap (cy.1 + 1 + 2000))
        simp only [monthLoopOK, hnat, hml, hw, if_true, Bool.and_eq_true, decide_eq_true_eq] at this
        obtain ⟨⟨⟨hm, r0⟩, ⟨⟨_, hmr⟩, hday⟩⟩, hd1⟩ := this
        have hl : (cy.2.toNat = 365 → isLeap (cy.1 + 1 + 2000) = true) := by
          intro h; have := hleap (by omega); rw [show cy.1 + 1 + 2000 = cy.1 + 2001 by omega]; exact this
        have hday := hday (by simpa using hl)
        simp only [toCivil, Civil.Valid, hw, if_true, daysInMonth]
        exact ⟨hmr.1, hmr.2, hd1, hday, hh0, hh1, hm0, hm1, hs0, hs1⟩
      · have := monthLoop_table ⟨cy.2.toNat, hlt⟩ (isLeap (cy.1 + 2000))
        simp only [monthLoopOK, hnat, hml, hw, Bool.false_eq_true, if_false, Bool.and_eq_true, decide_eq_true_eq] at this
        obtain ⟨⟨⟨hm, r0⟩, ⟨⟨_, hmr⟩, hday⟩⟩, hd1⟩ := this
        simp only [toCivil, Civil.Valid, hw, Bool.false_eq_true, if_false, daysInMonth]
        exact ⟨hmr.1, hmr.2, hd1, hday, hh0, hh1, hm0, hm1, hs0, hs1⟩
    · -- denotes t
      by_cases hw : WRAP_CMP m WRAP_AT = true
      · have := monthLoop_table ⟨cy.2.toNat, hlt⟩ (isLeap (cy.1 + 1 + 2000))
        simp only [monthLoopOK, hnat, hml, hw, if_true, Bool.and_eq_true, decide_eq_true_eq] at this
        obtain ⟨⟨⟨hm, r0⟩, ⟨⟨hdbm, _⟩, _⟩⟩, _⟩ := this
        simp only [toCivil, unixOfCivil, unixDays, daysBeforeMonth, hw, if_true]
        have hy := spec_year_succ (cy.1 + 2000)
        have hM := march_lemma cy.1
        simp only [daysInYear] at hy
        rw [show cy.1 + 2000 + 1 = cy.1 + 1 + 2000 by omega] at hy
        have e : DAY_BASE = 1 := rfl
        rw [e]
        split at hy <;> rename_i hlp <;> simp only [hlp, if_true, if_false, Bool.false_eq_true] at hM <;> omega
      · have := monthLoop_table ⟨cy.2.toNat, hlt⟩ (isLeap (cy.1 + 2000))
        simp only [monthLoopOK, hnat, hml, hw, Bool.false_eq_true, if_false, Bool.and_eq_true, decide_eq_true_eq] at this
        obtain ⟨⟨⟨hm, r0⟩, ⟨⟨hdbm, _⟩, _⟩⟩, _⟩ := this
        simp only [toCivil, unixOfCivil, unixDays, daysBeforeMonth, hw, Bool.false_eq_true, if_false]
        have hM := march_lemma cy.1
        have e : DAY_BASE = 1 := rfl
        rw [e]
        omega

/-- **C20.pre_epoch** — the `Err` arm of `duration_since` (instant before the epoch, at
distance `secs + nanos/10⁹` below it) is floor division: the pair produced denotes the
same instant and its sub-second part is in range. -/
theorem pre_epoch (secs nanos : Nat) (hn : nanos < 1000000000) :
    let r := splitInstant true secs nanos
    r.1 * 1000000000 + r.2 = -((secs : Int) * 1000000000 + nanos) ∧ 0 ≤ r.2 ∧ r.2 < 1000000000 := by
  simp only [splitInstant, ZERO_NANOS, NEG_EXACT_NANOS, NEG_ADJ, NANOS_PER_SEC, Bool.not_true,
    Bool.false_eq_true, if_false, beq_iff_eq]
  by_cases h : (nanos : Int) = 0
  · simp only [h, if_true]; omega
  · simp only [h, if_false]; omega

theorem post_epoch (secs nanos : Nat) :
    splitInstant false secs nanos = ((secs : Int), (nanos : Int)) := by
  simp [splitInstant]

/-- **C20.micros_truncate** — the printed fraction is `⌊nanos / 1000⌋`: never rounded up. -/
theorem micros_truncate (d : DT) (_h : 0 ≤ d.nanos) :
    ∃ pre, display d = pre ++ padNat 6 (d.nanos.toNat / 1000) ++ ['Z'] ∧
      (d.nanos.toNat / 1000) * 1000 ≤ d.nanos.toNat ∧ d.nanos.toNat < (d.nanos.toNat / 1000 + 1) * 1000 := by
  refine ⟨_, rfl, ?_, ?_⟩ <;> omega

/-- the format strings of `Display` are the ones the model's `display` implements
(a changed format string in the source breaks this obligation) -/
theorem shape_display :
    FMT_BIG = "+{}" ∧ FMT_NEG = "{:05}" ∧ FMT_POS = "{:04}" ∧
    FMT_REST = "-{:02}-{:02}T{:02}:{:02}:{:02}.{:06}Z" := by decide

/-- **C20.render_total_partial** — for every instant whose distance from the epoch fits
`i64` (all of `SystemTime`'s range except the single second `i64::MIN`, finding F19) the
debug-assertion build prints exactly the mathematical rendering, which by `correct` is the
right date.  The full statement (without the hypothesis) is false: `f19_witness`. -/
theorem render_total_partial (before : Bool) (secs nanos : Nat) (h : secs ≤ I64_MAX) :
    render before secs nanos = renderMath before secs nanos := by
  simp only [render]; rw [if_neg (by omega)]

/-- **C20.f19_witness** — the instant `UNIX_EPOCH - 2^63 s` is representable as `SystemTime`
on Linux, has a well-defined calendar date, but the conversion trips
`debug_assert!(duration.as_secs() <= i64::MAX as u64)`. -/
theorem f19_witness :
    render true 9223372036854775808 0 = "PANIC" ∧
    renderMath true 9223372036854775808 0 = "-292277022657-01-27T08:29:52.000000Z" := by
  constructor <;> decide

/-- non-vacuity / sanity: concrete instants through the whole model -/
example : render false 0 0 = "1970-01-01T00:00:00.000000Z" := by decide
example : render false 951782400 999999999 = "2000-02-29T00:00:00.999999Z" := by decide
example : render true 1 1 = "1969-12-31T23:59:58.999999Z" := by decide

end C20
