/-
C14, records on one span from several threads — "later record calls on a span are reflected in the span object of records
emitted afterwards": every field recorded by a Span::record call that has returned is in the span's stored fields, whatever
other threads record on the same span at the same time.

Model: Core/AtomicMerge.lean (one step = one critical section of on_record; any number of threads, any schedule); whether the
merge happens under the extensions write lock is extracted from fmt_subscriber.rs on every run.
-/
import TracingModel.Props.C14J
import TracingModel.Core.AtomicMerge

namespace C14
open TM.AtomicMerge TM.Gen.AtomicCounts

/-- **C14.record_merge_code_fact** — fmt::Subscriber::on_record takes `span.extensions_mut()` first and merges the new values
into the stored `FormattedFields` in place, under that lock (re-extracted from fmt_subscriber.rs on every run) -/
theorem record_merge_code_fact : recordMergesUnderLock = true := by decide

structure MInv (given : List Nat) (s : S) : Prop where
  keeps : ∀ f ∈ given, f ∈ s.fields
  has : ∀ t, s.pc t = .done → t ∈ s.fields
  noCopy : ∀ t seen, s.pc t ≠ .copied seen

theorem step_inv (given : List Nat) (s : S) (h : MInv given s) (t : Nat) : MInv given (step true s t) := by
  unfold step
  cases hp : s.pc t with
  | todo =>
    simp only [if_true]
    refine ⟨fun f hf => List.mem_cons_of_mem _ (h.keeps f hf), ?_, ?_⟩
    · intro x hx
      by_cases e : x = t
      · subst e; exact List.mem_cons_self
      · have : upd s.pc t .done x = s.pc x := by simp [upd, e]
        exact List.mem_cons_of_mem _ (h.has x (by simpa [this] using hx))
    · intro x seen
      by_cases e : x = t
      · subst e; simp [upd]
      · have : upd s.pc t .done x = s.pc x := by simp [upd, e]
        simpa [this] using h.noCopy x seen
  | copied seen => exact absurd hp (h.noCopy t seen)
  | done => simpa [hp] using h

theorem run_inv (given : List Nat) (sched : List Nat) (s : S) (h : MInv given s) : MInv given (run true s sched) := by
  induction sched generalizing s with
  | nil => exact h
  | cons t ts ih => exact ih _ (step_inv given s h t)

/-- **C14.no_recorded_field_lost** — any threads recording on one span, every interleaving of on_record's critical sections as
the code performs them: the stored fields contain every field given at creation and the field of every record call that has
finished -/
theorem no_recorded_field_lost (given : List Nat) (sched : List Nat) :
    let s := run recordMergesUnderLock (start given) sched
    (∀ f ∈ given, f ∈ s.fields) ∧ ∀ t, s.pc t = .done → t ∈ s.fields := by
  rw [record_merge_code_fact]
  have h0 : MInv given (start given) :=
    ⟨fun f hf => hf, fun t ht => by simp [start] at ht, fun t seen => by simp [start]⟩
  have := run_inv given sched _ h0
  exact ⟨this.keeps, this.has⟩

/-- **C14.lost_record_witness** — it depends on the merge happening under the lock: with copy / merge / write-back, of two
overlapping record calls the first one's field is gone although both calls have returned -/
theorem lost_record_witness :
    let s := run false (start [1000]) [0, 1, 0, 1]
    s.pc 0 = .done ∧ s.pc 1 = .done ∧ s.fields = [1, 1000] := by decide

example : (run recordMergesUnderLock (start [1000]) [1, 0, 1]).fields = [0, 1, 1000] := by decide

end C14
