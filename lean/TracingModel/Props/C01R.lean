/-
C01, first hits on several threads — "…they never suppress a delivery the collector would accept and never
cause one it would reject, no matter which other collectors were created, dropped or re-evaluated before …
over several threads … including the first hit of a callsite".

The sequential histories of Props/C01 take each registry operation as one step.  When a callsite's first hit
runs while another thread creates a collector, what keeps the cached interest sound is the lock discipline of
`callsite::register` (the read lock spans computing the interest AND linking the callsite): that is C04's
transition system, whose facts are extracted from callsite.rs / lib.rs on every run.  Restated here as C01's
obligations.
-/
import TracingModel.Props.C01
import TracingModel.Props.C04

namespace C01
open TM.RegRace TM.Gen.RegistryLocks
open TM.Callsite (Cs)

/-- what callsite.rs and lib.rs say now about the registration paths (regenerated on every run) -/
theorem registration_lock_discipline :
    registerHoldsAcrossPush = true ∧ registerOrder = ["read", "compute", "push"] ∧
    registerDispatchOrder = ["write", "notify", "push", "rebuild"] ∧ rebuildCacheOrder = ["write", "rebuild"] ∧
    rebuildInterestOrder = ["retain", "for_each", "set_max"] ∧
    macroCas = true ∧ macroWinnerRegistersThenStores = true ∧ macroLoserSometimes = true ∧ macroRegisteredLoads = true :=
  C04.lock_discipline

/-- **C01.racing_first_hit_sound** — after EVERY interleaving of first hits, collector creations, drops and rebuilds on any
number of threads: a cached `never` means every live collector said never (no accepted delivery is suppressed), a cached
`always` means every live collector said always (no rejected delivery is caused), and MAX_LEVEL is not below any live
collector's hint -/
theorem racing_first_hit_sound (U : List Cs) (steps : List Step) (hin : ∀ st ∈ steps, C04.StepIn U st)
    (hclean : (C04.runCode U steps).dirty = false) :
    let s := C04.runCode U steps
    (∀ cs c, s.alive c = true →
        (s.cache cs = some .never → s.want c cs = .never) ∧ (s.cache cs = some .always → s.want c cs = .always)) ∧
    (∀ c, s.alive c = true → s.hint c ≤ s.maxLevel) :=
  C04.never_stranded U steps hin hclean

end C01
