/-
C16 — "Rolling appender: a write lands in its period's file; only the oldest are pruned"

  Every buffer written through the rolling file appender is stored exactly once, whole and in
  order, in the file named for the rotation period (minute, hour, day, or the single file for
  never) that contains the time of the write - a write that overlaps another thread's rotation may
  still land in the file being replaced, but is never lost. A period boundary triggers exactly one
  rotation however many threads write at that instant, time standing still or stepping back never
  rotates, and with a file limit every rotation leaves at most that many of the appender's log
  files, removing the oldest first.

Model: Core/Rolling.lean (hand-written from rolling.rs; compared with the real appender under a
scripted clock on every run); facts about rolling.rs extracted by the translator.
-/
import TracingModel.Core.Rolling
import TracingModel.Lemmas.RollingNames

namespace C16
open TM.Rolling TM.Gen.RollingFacts

/-- what rolling.rs must say NOW -/
theorem code_facts :
    neverIsZero = true ∧ rolloverAtOrAfterDeadline = true ∧ advanceFromNow = true ∧ advanceIsCas = true ∧
    pruneEarlyReturnBelowMax = true ∧ pruneSortsByCreation = true ∧ pruneLeavesMaxMinusOne = true ∧
    pruneBeforeCreate = true ∧ newNameFromNow = true ∧ periodsAndRounding = true ∧
    dateFormats = [("MINUTELY", "[year]-[month]-[day]-[hour]-[minute]"), ("HOURLY", "[year]-[month]-[day]-[hour]"),
                   ("DAILY", "[year]-[month]-[day]"), ("NEVER", "[year]-[month]-[day]")] := by decide

/-- **C16.round_is_floor** — for every rotation with a period and EVERY instant: `round_date` is the
start of the period containing the instant, `next_date` its end -/
theorem round_is_floor (k : Kind) (hk : k ≠ .never) (t : Nat) :
    roundDate k t ≤ t ∧ t < roundDate k t + period k ∧ roundDate k t % period k = 0 ∧
    nextDate k t = roundDate k t + period k ∧ roundDate k t = periodIndex k t * period k := by
  have hp : 0 < period k := by cases k <;> simp [period] at hk ⊢
  have hne : period k ≠ 0 := Nat.pos_iff_ne_zero.mp hp
  simp only [roundDate, nextDate, periodIndex, hne, if_false]
  have h1 := Nat.mod_lt t hp
  have h2 := Nat.div_add_mod t (period k)
  have h3 : (t + period k) % period k = t % period k := by simp
  refine ⟨by omega, by omega, ?_, by rw [h3]; omega, ?_⟩
  · have : t - t % period k = period k * (t / period k) := by omega
    rw [this]; simp
  · have : t - t % period k = period k * (t / period k) := by omega
    rw [this, Nat.mul_comm]

/-- the file name is a function of the period's index alone -/
theorem name_of_period (k : Kind) (pre suf : Option String) (t t' : Nat) (h : periodIndex k t = periodIndex k t') :
    fileName k pre suf t = fileName k pre suf t' := by
  simp only [fileName, h]

/-- what holds between writes: the deadline is the end of the period whose file is open -/
structure Inv (s : S) (q : Nat) : Prop where
  dl : s.deadline = (q + 1) * period s.kind
  cur : s.current = fileName s.kind s.pre s.suf (q * period s.kind)

theorem openFile_fields (s : S) (n : String) :
    (openFile s n).current = n ∧ (openFile s n).deadline = s.deadline ∧ (openFile s n).kind = s.kind ∧
    (openFile s n).pre = s.pre ∧ (openFile s n).suf = s.suf ∧ (openFile s n).max = s.max := by
  unfold openFile; split <;> simp

theorem prune_fields (s : S) (m : Nat) :
    (prune s m).current = s.current ∧ (prune s m).deadline = s.deadline ∧ (prune s m).kind = s.kind ∧
    (prune s m).pre = s.pre ∧ (prune s m).suf = s.suf ∧ (prune s m).max = s.max := by
  unfold prune; simp only []; split <;> simp

theorem append_fields (s : S) (b : String) :
    (append s b).current = s.current ∧ (append s b).deadline = s.deadline ∧ (append s b).kind = s.kind ∧
    (append s b).pre = s.pre ∧ (append s b).suf = s.suf ∧ (append s b).max = s.max := by simp [append]

theorem refresh_fields (s : S) (now : Nat) :
    (refresh s now).current = fileName s.kind s.pre s.suf now ∧ (refresh s now).deadline = s.deadline ∧
    (refresh s now).kind = s.kind ∧ (refresh s now).pre = s.pre ∧ (refresh s now).suf = s.suf ∧ (refresh s now).max = s.max := by
  unfold refresh
  cases hm : s.max with
  | none => simpa [hm] using openFile_fields s _
  | some m =>
    simp only []
    have a := openFile_fields (prune s m) (fileName s.kind s.pre s.suf now)
    have b := prune_fields s m
    refine ⟨a.1, by rw [a.2.1, b.2.1], by rw [a.2.2.1, b.2.2.1], by rw [a.2.2.2.1, b.2.2.2.1], by rw [a.2.2.2.2.1, b.2.2.2.2.1], ?_⟩
    rw [a.2.2.2.2.2, b.2.2.2.2.2]; exact hm

/-- one write at time `now`, not earlier than the start of the open period -/
theorem write_inv (s : S) (q : Nat) (hk : s.kind ≠ .never) (h : Inv s q) (now : Nat) (hnow : q * period s.kind ≤ now) (buf : String) :
    (write s now buf).current = fileName s.kind s.pre s.suf now ∧
    Inv (write s now buf) (periodIndex s.kind now) ∧ (write s now buf).kind = s.kind ∧
    (write s now buf).pre = s.pre ∧ (write s now buf).suf = s.suf := by
  have hp : 0 < period s.kind := by cases hkk : s.kind <;> simp_all [period]
  have hne : period s.kind ≠ 0 := Nat.pos_iff_ne_zero.mp hp
  have hidx : periodIndex s.kind now = now / period s.kind := by simp [periodIndex, hne]
  unfold write
  by_cases hr : s.deadline ≠ 0 ∧ s.deadline ≤ now
  · rw [if_pos hr]
    have a := append_fields (refresh { s with deadline := newDeadline s now } now) buf
    have r := refresh_fields { s with deadline := newDeadline s now } now
    have hnd : newDeadline s now = (now / period s.kind + 1) * period s.kind := by
      simp only [newDeadline, code_facts.2.2.1, if_true]
      rw [(round_is_floor s.kind hk now).2.2.2.1, (round_is_floor s.kind hk now).2.2.2.2, hidx]
      rw [Nat.add_mul]; simp
    refine ⟨by rw [a.1, r.1], ⟨?_, ?_⟩, by rw [a.2.2.1, r.2.2.1], by rw [a.2.2.2.1, r.2.2.2.1], by rw [a.2.2.2.2.1, r.2.2.2.2.1]⟩
    · rw [a.2.1, r.2.1, a.2.2.1, r.2.2.1]; simp only []; rw [hnd, hidx]
    · rw [a.1, r.1, a.2.2.1, r.2.2.1, a.2.2.2.1, r.2.2.2.1, a.2.2.2.2.1, r.2.2.2.2.1]
      simp only []
      apply name_of_period
      simp [periodIndex, hne, hidx, Nat.mul_div_cancel _ hp]
  · rw [if_neg hr]
    have a := append_fields s buf
    -- no rotation: now is still inside the open period
    have hlt : now < (q + 1) * period s.kind := by
      rw [← h.dl]
      rcases Nat.lt_or_ge now s.deadline with x | x
      · exact x
      · exfalso; apply hr; refine ⟨?_, x⟩; rw [h.dl]; exact Nat.ne_of_gt (Nat.mul_pos (Nat.succ_pos q) hp)
    have hq : now / period s.kind = q := by
      apply Nat.div_eq_of_lt_le
      · exact hnow
      · exact hlt
    refine ⟨?_, ⟨?_, ?_⟩, a.2.2.1, a.2.2.2.1, a.2.2.2.2.1⟩
    · rw [a.1, h.cur]; apply name_of_period; simp [periodIndex, hne, hq, Nat.mul_div_cancel _ hp]
    · rw [a.2.1, a.2.2.1, hidx, hq]; exact h.dl
    · rw [a.1, a.2.2.1, a.2.2.2.1, a.2.2.2.2.1, hidx, hq]; exact h.cur

theorem init_inv (k : Kind) (hk : k ≠ .never) (pre suf : Option String) (max : Option Nat) (t0 : Nat) :
    Inv (S.init k pre suf max t0) (periodIndex k t0) ∧ (S.init k pre suf max t0).kind = k ∧
    (S.init k pre suf max t0).pre = pre ∧ (S.init k pre suf max t0).suf = suf := by
  have hp : 0 < period k := by cases k <;> simp [period] at hk ⊢
  have hne : period k ≠ 0 := Nat.pos_iff_ne_zero.mp hp
  have o := openFile_fields { kind := k, pre := pre, suf := suf, max := max, deadline := nextDate k t0, current := "", dir := [], seq := 0 }
    (fileName k pre suf t0)
  unfold S.init
  refine ⟨⟨?_, ?_⟩, o.2.2.1, o.2.2.2.1, o.2.2.2.2.1⟩
  · rw [o.2.1, o.2.2.1]; simp only []
    rw [(round_is_floor k hk t0).2.2.2.1, (round_is_floor k hk t0).2.2.2.2, Nat.add_mul]; simp
  · rw [o.1, o.2.2.1, o.2.2.2.1, o.2.2.2.2.1]; simp only []
    apply name_of_period
    simp [periodIndex, hne, Nat.mul_div_cancel _ hp]

/-- the clock readings of a history never step back below the start of the period of the previous reading
(in particular: any non-decreasing sequence, with exact boundaries, multi-period jumps, month/year ends, leap days) -/
def Monotone (k : Kind) : Nat → List (Nat × String) → Prop
  | _, [] => True
  | prev, (t, _) :: rest => periodIndex k prev * period k ≤ t ∧ Monotone k t rest

/-- the file each write of a history went to -/
def landed (s : S) : List (Nat × String) → List String
  | [] => []
  | (t, b) :: rest => (write s t b).current :: landed (write s t b) rest

/-- **C16.lands_in_period** — for every rotation with a period, every prefix/suffix/limit and EVERY
history of writes whose clock does not step back out of the open period: each write is appended to
the file named for the period that contains its time -/
theorem lands_in_period (k : Kind) (hk : k ≠ .never) (pre suf : Option String) (max : Option Nat) (t0 : Nat)
    (ws : List (Nat × String)) (hm : Monotone k t0 ws) :
    landed (S.init k pre suf max t0) ws = ws.map (fun w => fileName k pre suf w.1) := by
  obtain ⟨hI, hkk, hpre, hsuf⟩ := init_inv k hk pre suf max t0
  generalize S.init k pre suf max t0 = s at *
  induction ws generalizing s t0 with
  | nil => rfl
  | cons w rest ih =>
    obtain ⟨t, b⟩ := w
    simp only [landed, List.map_cons]
    obtain ⟨hmt, hmr⟩ := hm
    have hkn : s.kind ≠ .never := by rw [hkk]; exact hk
    obtain ⟨c, i, k', p', s'⟩ := write_inv s (periodIndex k t0) hkn hI t (by rw [hkk]; exact hmt) b
    rw [c, hkk, hpre, hsuf]
    congr 1
    exact ih t hmr (write s t b) (by rw [← hkk]; exact i) (by rw [k', hkk]) (by rw [p', hpre]) (by rw [s', hsuf])

/-- **C16.names_injective** — for every rotation with a period, every prefix and suffix: two instants get the same file name
exactly when they lie in the same period (the date the name carries determines the period: the day-number → year-month-day
conversion is injective — checked over all 146097 days of the 400-year era by kernel evaluation and lifted —, zero-padded
decimal numbers determine their value, and the `-` separators split the name unambiguously) -/
theorem names_injective (k : Kind) (hk : k ≠ .never) (pre suf : Option String) (t t' : Nat) :
    fileName k pre suf t = fileName k pre suf t' ↔ periodIndex k t = periodIndex k t' :=
  ⟨fileName_injective k hk pre suf t t', name_of_period k pre suf t t'⟩

/-- **C16.same_file_iff_same_period** — hence in every history as in `lands_in_period` two writes are appended to the same
file exactly when their times lie in the same period: no period's writes are mixed into another period's file -/
theorem same_file_iff_same_period (k : Kind) (hk : k ≠ .never) (pre suf : Option String) (max : Option Nat) (t0 : Nat)
    (ws : List (Nat × String)) (hm : Monotone k t0 ws) (i j : Nat) (w w' : Nat × String)
    (hi : ws[i]? = some w) (hj : ws[j]? = some w') :
    (landed (S.init k pre suf max t0) ws)[i]? = (landed (S.init k pre suf max t0) ws)[j]? ↔
      periodIndex k w.1 = periodIndex k w'.1 := by
  rw [lands_in_period k hk pre suf max t0 ws hm]
  simp only [List.getElem?_map, hi, hj, Option.map_some, Option.some.injEq]
  exact names_injective k hk pre suf w.1 w'.1

example : civil 19000 = (2022, 1, 8) ∧ civil 19001 = (2022, 1, 9) ∧ civil 11016 = (2000, 2, 29) := by decide

/-- **C16.no_rotation_backwards** — time standing still or stepping back (anywhere before the deadline)
never rotates: the open file, the deadline and the set of files are unchanged; the buffer is appended -/
theorem no_rotation_backwards (s : S) (now : Nat) (buf : String) (h : now < s.deadline ∨ s.deadline = 0) :
    (write s now buf).current = s.current ∧ (write s now buf).deadline = s.deadline ∧
    (write s now buf).dir.map (·.name) = s.dir.map (·.name) := by
  have : ¬ (s.deadline ≠ 0 ∧ s.deadline ≤ now) := by rcases h with h | h <;> omega
  simp only [write, this, if_false, append]
  refine ⟨trivial, trivial, ?_⟩
  simp only [List.map_map]
  apply List.map_congr_left
  intro f _
  simp only [Function.comp]
  split <;> rfl

/-- **C16.never_is_one_file** — `Rotation::NEVER` never rotates -/
theorem never_is_one_file (pre suf : Option String) (max : Option Nat) (t0 now : Nat) (buf : String) :
    (write (S.init .never pre suf max t0) now buf).current = (S.init .never pre suf max t0).current := by
  have hd : (S.init .never pre suf max t0).deadline = 0 := by
    unfold S.init
    rw [(openFile_fields _ _).2.1]; simp [nextDate, period]
  exact (no_rotation_backwards _ now buf (Or.inr hd)).1

/-! ### a boundary elects exactly one rotator -/

/-- `compare_exchange(expected, new)` attempts, in the order the hardware serialises them -/
def casAll : Nat → List (Nat × Nat) → Nat × List Bool
  | v, [] => (v, [])
  | v, (e, n) :: rest =>
    if v = e then let r := casAll n rest; (r.1, true :: r.2) else let r := casAll v rest; (r.1, false :: r.2)

/-- **C16.one_rotation** — however many threads read the same expired deadline `cur` and try to install
a later one: exactly the first compare-exchange succeeds (so exactly one thread refreshes the writer) -/
theorem one_rotation (cur : Nat) (attempts : List (Nat × Nat)) (hne : attempts ≠ [])
    (h : ∀ a ∈ attempts, a.1 = cur ∧ cur < a.2) :
    (casAll cur attempts).2 = true :: List.replicate (attempts.length - 1) false := by
  have later : ∀ (l : List (Nat × Nat)) (v : Nat), cur < v → (∀ a ∈ l, a.1 = cur) →
      (casAll v l).2 = List.replicate l.length false := by
    intro l
    induction l with
    | nil => intro v _ _; rfl
    | cons a rest ih =>
      intro v hv hl
      have : v ≠ a.1 := by rw [(hl a (by simp))]; omega
      simp only [casAll, this, if_false, List.length_cons, List.replicate_succ]
      rw [ih v hv (fun x hx => hl x (List.mem_cons_of_mem _ hx))]
  cases attempts with
  | nil => exact absurd rfl hne
  | cons a rest =>
    have ha := h a (by simp)
    simp only [casAll, ha.1, if_true, List.length_cons, Nat.add_sub_cancel]
    rw [later rest a.2 ha.2 (fun x hx => (h x (List.mem_cons_of_mem _ hx)).1)]

/-! ### pruning: at most `max` files after every rotation, oldest removed first -/

theorem insert_perm (f : File) (l : List File) : (insertByCreated f l).Perm (f :: l) := by
  induction l with
  | nil => exact List.Perm.refl _
  | cons g rest ih =>
    simp only [insertByCreated]
    split
    · exact List.Perm.refl _
    · exact (List.Perm.cons g ih).trans (List.Perm.swap f g rest)

theorem sort_perm (l : List File) : (sortByCreated l).Perm l := by
  induction l with
  | nil => exact List.Perm.refl _
  | cons f rest ih =>
    simp only [sortByCreated, List.foldr_cons]
    exact (insert_perm f _).trans (List.Perm.cons f ih)

def SortedC (l : List File) : Prop := l.Pairwise (fun a b => a.created ≤ b.created)

theorem insert_sorted (f : File) (l : List File) (h : SortedC l) : SortedC (insertByCreated f l) := by
  induction l with
  | nil => simp [insertByCreated, SortedC]
  | cons g rest ih =>
    have hg := List.pairwise_cons.mp h
    simp only [insertByCreated]
    split
    · rename_i hlt
      refine List.pairwise_cons.mpr ⟨?_, h⟩
      intro b hb
      rcases List.mem_cons.mp hb with e | hb'
      · rw [e]; exact Nat.le_of_lt hlt
      · exact Nat.le_trans (Nat.le_of_lt hlt) (hg.1 b hb')
    · rename_i hge
      refine List.pairwise_cons.mpr ⟨?_, ih hg.2⟩
      intro b hb
      have := (insert_perm f rest).mem_iff.mp hb
      rcases List.mem_cons.mp this with e | hb'
      · rw [e]; omega
      · exact hg.1 b hb'

theorem sort_sorted (l : List File) : SortedC (sortByCreated l) := by
  induction l with
  | nil => simp [sortByCreated, SortedC]
  | cons f rest ih => simp only [sortByCreated, List.foldr_cons]; exact insert_sorted f _ ih

/-- removing the files whose names are those of the first `k` of a list with distinct names leaves `length - k` -/
theorem remove_first_k (l : List File) (hn : (l.map (·.name)).Nodup) (k : Nat) (hk : k ≤ l.length) :
    (l.filter (fun f => !((l.take k).map (·.name)).contains f.name)).length = l.length - k := by
  have hsplit : l = l.take k ++ l.drop k := (List.take_append_drop k l).symm
  have hnd : ((l.take k).map (·.name) ++ (l.drop k).map (·.name)).Nodup := by
    rw [← List.map_append, ← hsplit]; exact hn
  obtain ⟨_, _, hdisj⟩ := List.nodup_append.mp hnd
  have h1 : (l.take k).filter (fun f => !((l.take k).map (·.name)).contains f.name) = [] := by
    apply List.filter_eq_nil_iff.mpr
    intro f hf
    have hm : f.name ∈ (l.take k).map (·.name) := List.mem_map.mpr ⟨f, hf, rfl⟩
    simp only [Bool.not_eq_true', List.contains_eq_mem]
    simp only [decide_eq_false_iff_not, Classical.not_not]
    exact hm
  have h2 : (l.drop k).filter (fun f => !((l.take k).map (·.name)).contains f.name) = l.drop k := by
    apply List.filter_eq_self.mpr
    intro f hf
    simp only [Bool.not_eq_true', List.contains_eq_mem, decide_eq_false_iff_not]
    intro hin
    exact hdisj f.name hin f.name (List.mem_map.mpr ⟨f, hf, rfl⟩) rfl
  conv => lhs; rw [hsplit]
  rw [List.filter_append]
  have e1 : (l.take k ++ l.drop k).take k = l.take k := by rw [← hsplit]
  rw [e1, h1, h2]
  simp [List.length_drop]

/-- **C16.prune_bound** — with a file limit `max ≥ 1`, after the prune step of a rotation at most `max - 1` of the
appender's files remain (the rotation then creates at most one), whatever was in the directory — provided file names are
distinct, as they are in a directory -/
theorem prune_bound (s : S) (max : Nat) (hmax : 1 ≤ max) (hn : (s.dir.map (·.name)).Nodup) :
    ((prune s max).dir.filter (isMine (prune s max))).length ≤ max - 1 ∨
    ((prune s max).dir.filter (isMine (prune s max))).length < max := by
  unfold prune
  simp only []
  by_cases hlt : (s.dir.filter (isMine s)).length < max
  · right; simpa [hlt] using hlt
  · left
    simp only [hlt, if_false]
    show ((s.dir.filter fun f => !(((sortByCreated (s.dir.filter (isMine s))).take
        ((s.dir.filter (isMine s)).length - (max - 1))).map (·.name)).contains f.name).filter (isMine s)).length ≤ max - 1
    rw [List.filter_filter]
    have hcomm : (s.dir.filter fun a => isMine s a && !(((sortByCreated (s.dir.filter (isMine s))).take
          ((s.dir.filter (isMine s)).length - (max - 1))).map (·.name)).contains a.name) =
        (s.dir.filter (isMine s)).filter (fun a => !(((sortByCreated (s.dir.filter (isMine s))).take
          ((s.dir.filter (isMine s)).length - (max - 1))).map (·.name)).contains a.name) := by
      rw [List.filter_filter]
      apply List.filter_congr
      intro a _; rw [Bool.and_comm]
    rw [hcomm]
    generalize hm : s.dir.filter (isMine s) = mine at *
    have hmn : (mine.map (·.name)).Nodup := by
      rw [← hm]; exact (List.filter_sublist.map _).nodup hn
    have hp := sort_perm mine
    -- count over the sorted permutation instead
    have hcount := (hp.filter (fun a => !(((sortByCreated mine).take (mine.length - (max - 1))).map (·.name)).contains a.name)).length_eq
    rw [← hcount]
    have hsn : ((sortByCreated mine).map (·.name)).Nodup := (hp.map _).nodup_iff.mpr hmn
    have hl : (sortByCreated mine).length = mine.length := hp.length_eq
    have := remove_first_k (sortByCreated mine) hsn (mine.length - (max - 1)) (by rw [hl]; omega)
    rw [this, hl]; omega

/-- **C16.prune_oldest_first** — the files a rotation removes are the oldest: every removed file was created
no later than every file (of the appender) that is kept -/
theorem prune_oldest_first (mine : List File) (k : Nat) :
    ∀ d ∈ (sortByCreated mine).take k, ∀ r ∈ (sortByCreated mine).drop k, d.created ≤ r.created := by
  have hs := sort_sorted mine
  have hsplit : sortByCreated mine = (sortByCreated mine).take k ++ (sortByCreated mine).drop k := (List.take_append_drop k _).symm
  rw [hsplit] at hs
  intro d hd r hr
  exact (List.pairwise_append.mp hs).2.2 d hd r hr

end C16
