/-
C08, the env-filter with span-scoped directives — "it never answers 'never' for a callsite … that it would accept if asked
dynamically, and it never answers 'always' for a callsite it could reject", for `EnvFilter::register_callsite` against
`EnvFilter::enabled` in EVERY span context (model Core/EnvDyn, the one C11 compares with the real filter).

The `never` clause holds outright.  The `always` clause holds for every callsite except the spans a span-scoped directive cares
about: those are answered `always` whatever their level ("it influences filtering"), while `enabled` — asked when another
collector makes the cached interest `sometimes` — rejects them above the directives' max level.  That is finding F8
(`f8_witness`); the theorem is stated for the rest (`env_always_sound_partial`).
-/
import TracingModel.Props.C08T
import TracingModel.Core.EnvDyn

namespace C08
open TM TM.EnvDyn TM.Directive

/-- every directive of a static table is at or below the table's max level -/
def WF (s : DSet) : Prop := ∀ d ∈ s.dirs, d.level ≤ s.maxLevel

theorem mem_insertDir (d x : SDir) (l : List SDir) (h : x ∈ insertDir d l) : x = d ∨ x ∈ l := by
  induction l with
  | nil => simp [insertDir] at h; exact Or.inl h
  | cons e rest ih =>
    simp only [insertDir] at h
    split at h
    · rcases List.mem_cons.mp h with h | h
      · exact Or.inl h
      · exact Or.inr h
    · rcases List.mem_cons.mp h with h | h
      · exact Or.inl h
      · exact Or.inr (List.mem_cons_of_mem _ h)
    · rcases List.mem_cons.mp h with h | h
      · exact Or.inr (by simp [h])
      · rcases ih h with h | h
        · exact Or.inl h
        · exact Or.inr (List.mem_cons_of_mem _ h)

theorem add_wf (s : DSet) (d : SDir) (h : WF s) : WF (s.add d) := by
  intro x hx
  simp only [DSet.add] at hx ⊢
  rcases mem_insertDir d x s.dirs hx with e | e
  · subst e; split <;> omega
  · have := h x e; split <;> omega

theorem build_wf (ds : List SDir) : WF (build ds) := by
  have key : ∀ (ds : List SDir) (s : DSet), WF s → WF (ds.foldl DSet.add s) := by
    intro ds
    induction ds with
    | nil => intro s h; exact h
    | cons d ds ih => intro s h; exact ih _ (add_wf s d h)
  exact key ds DSet.empty (by intro x hx; cases hx)

theorem mkEnv_wf (viaAdd : Bool) (ds : List DDir) : WF (mkEnv viaAdd ds).statics := by
  unfold mkEnv; exact build_wf _

/-- what the static table enables is at or below its max level -/
theorem static_enabled_le (s : DSet) (h : WF s) (m : Meta) (he : Directive.enabled s m = true) : m.level ≤ s.maxLevel := by
  unfold Directive.enabled at he
  split at he
  · rename_i d hd
    have hm := List.mem_of_find?_eq_some hd
    have := h d hm
    have : m.level ≤ d.level := by simpa using he
    omega
  · cases he

/-- **C08.env_never_sound** — an env-filter (any static and span-scoped directives, installed by parse or by add_directive) that
answers `never` for a callsite rejects it in every span context -/
theorem env_never_sound (e : Env) (s : St) (m : CMeta) (h : registerCallsite e m = .never) : EnvDyn.enabled e s m = false := by
  unfold registerCallsite at h
  split at h
  · cases h
  · split at h
    · cases h
    · rename_i hs
      split at h
      · cases h
      · rename_i hd
        unfold EnvDyn.enabled
        have hd' : e.hasDynamics = false := by simpa using hd
        have hs' : Directive.enabled e.statics m.toMeta = false := by simpa using hs
        simp [hd', hs']

/-- **C08.env_always_sound_partial** — … and one that answers `always` accepts the callsite in every span context, for every
callsite that is not a span cared about by a span-scoped directive (that region is finding F8) -/
theorem env_always_sound_partial (e : Env) (hwf : WF e.statics) (s : St) (m : CMeta) (hn : caredSpan e m = false)
    (h : registerCallsite e m = .always) : EnvDyn.enabled e s m = true := by
  unfold registerCallsite at h
  rw [hn] at h
  simp only [Bool.false_eq_true, if_false] at h
  split at h
  · rename_i hs
    have hle := static_enabled_le e.statics hwf m.toMeta hs
    unfold EnvDyn.enabled
    split
    · rfl
    · have : decide (m.level ≤ e.statics.maxLevel) = true := by simpa [CMeta.toMeta] using hle
      simp [this, hs]
  · split at h <;> cases h

/-- **C08.f8_witness** — `[my_span]=info` and a DEBUG span named my_span: `always` from register_callsite, `false` from enabled -/
theorem f8_witness :
    let e := mkEnv false [{ target := none, inSpan := some (TM.ofString "my_span"), fields := [], level := 3 }]
    let m : CMeta := { name := TM.ofString "my_span", target := TM.ofString "app", level := 4, isSpan := true, fields := [] }
    registerCallsite e m = .always ∧ EnvDyn.enabled e St.init m = false := by decide

example : WF (mkEnv true [{ target := some (TM.ofString "app"), inSpan := none, fields := [], level := 3 }]).statics := mkEnv_wf _ _

end C08
