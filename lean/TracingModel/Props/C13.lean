/-
C13 — "fmt writes one complete record per event, to exactly the selected writers"

  For each event (and each configured span lifecycle point) that reaches the formatting layer, it
  asks the configured writer factory once, with that event's metadata, and hands the resulting
  writer the whole newline-terminated record in a single write (exactly one line for the full,
  compact and JSON formats), so records from concurrent threads never interleave; the record names
  the level, every span in scope in nesting order with its fields, and every event field with its
  value. Writer combinators (level bounds, predicates, tee, fallback) route each record to exactly
  the sinks their definition denotes.

Model: Core/Writers.lean — `mk` / `writes` / `emitRecord` INTERPRET the table extracted from
writer.rs and fmt_subscriber.rs on every run (Gen/WriterRouting.lean); `sel` is the denotation.
The text of a record (level, spans in order, fields) is judged on the implementation's output.
-/
import TracingModel.Core.Writers

namespace C13
open TM.Writers TM.Gen.WriterRouting

/-- what writer.rs / fmt_subscriber.rs must say NOW -/
theorem table_facts :
    row "WithMaxLevel" "make_writer_for" = some ("le", [("make", "make_writer_for")]) ∧
    row "WithMinLevel" "make_writer_for" = some ("ge", [("make", "make_writer_for")]) ∧
    row "WithFilter" "make_writer_for" = some ("filter", [("make", "make_writer_for")]) ∧
    row "Tee" "make_writer_for" = some ("none", [("a", "make_writer_for"), ("b", "make_writer_for")]) ∧
    row "OrElse" "make_writer_for" = some ("match-either", [("inner", "make_writer_for"), ("or_else", "make_writer_for")]) ∧
    row "BoxMakeWriter" "make_writer_for" = some ("none", [("inner", "make_writer_for")]) ∧
    row "Boxed" "make_writer_for" = some ("none", [("0", "make_writer_for")]) ∧
    teeWritesBoth = true ∧ eitherWritesOne = true :=
  ⟨by decide, by decide, by decide, by decide, by decide, by decide, by decide, by decide, by decide⟩

theorem on_event_facts :
    onEventMakeWriterFor = 1 ∧ onEventMakeWriterPlain = 0 ∧ onEventWrites = 1 ∧ onEventMakeThenWrite = true ∧
    onEventClearsBefore = true := by decide

theorem passOn_for (m : WMeta) : passOn "make_writer_for" (.some m) = some (.some m) := by
  simp [passOn]

/-- everything a write reaches was obtained with `make_writer_for(m)` — never with the metadata-less `make_writer()` -/
def AllFor (m : WMeta) (l : List (Nat × Ask)) : Prop := ∀ x ∈ l, x.2 = .withMeta m

theorem guarded_le (l : Nat) (inner : Option WMeta → W) (m : WMeta) :
    guarded "WithMaxLevel" (fun x => decide (x.level ≤ l)) (fun x => decide (l ≤ x.level)) (fun _ => false) inner (.some m)
      = if m.level ≤ l then .some (inner (.some m)) else .none := by
  simp only [guarded, methName, table_facts.1, passOn_for]
  by_cases h : m.level ≤ l <;> simp [h]

theorem guarded_ge (l : Nat) (inner : Option WMeta → W) (m : WMeta) :
    guarded "WithMinLevel" (fun x => decide (x.level ≤ l)) (fun x => decide (l ≤ x.level)) (fun _ => false) inner (.some m)
      = if l ≤ m.level then .some (inner (.some m)) else .none := by
  simp only [guarded, methName, table_facts.2.1, passOn_for]
  by_cases h : l ≤ m.level <;> simp [h]

theorem guarded_filter (p : Pred) (inner : Option WMeta → W) (m : WMeta) :
    guarded "WithFilter" (fun _ => false) (fun _ => false) p.eval inner (.some m)
      = if p.eval m then .some (inner (.some m)) else .none := by
  simp only [guarded, methName, table_facts.2.2.1, passOn_for]
  by_cases h : p.eval m = true <;> simp [h]

/-- **C13.routes_denote** — for EVERY writer expression (any depth) and every metadata: the writer
that `make_writer_for(meta)` returns is well formed, a `write_all` on it reaches exactly the sinks
the expression denotes (each once, in tee order), and every one of those sinks was asked with
`make_writer_for(meta)` all the way down -/
theorem routes_denote (e : WExpr) (hwf : WF e = true) (m : WMeta) :
    (mk e (.some m)).isBad = false ∧
    (writes (mk e (.some m))).map (·.1) = sel e m ∧ AllFor m (writes (mk e (.some m))) := by
  induction e with
  | sink k => simp [mk, writes, sel, AllFor, W.isBad]
  | boxed e ih =>
    have := ih (by simpa [WF] using hwf)
    simpa [mk, methName, table_facts.2.2.2.2.2.1, table_facts.2.2.2.2.2.2.1, passOn_for, sel] using this
  | maxLevel l e ih =>
    have := ih (by simpa [WF] using hwf)
    simp only [mk, guarded_le, sel]
    by_cases h : m.level ≤ l
    · simpa [h, writes, W.isBad] using this
    · simp [h, writes, W.isBad, AllFor]
  | minLevel l e ih =>
    have := ih (by simpa [WF] using hwf)
    simp only [mk, guarded_ge, sel]
    by_cases h : l ≤ m.level
    · simpa [h, writes, W.isBad] using this
    · simp [h, writes, W.isBad, AllFor]
  | filter p e ih =>
    have := ih (by simpa [WF] using hwf)
    simp only [mk, guarded_filter, sel]
    by_cases h : p.eval m = true
    · simpa [h, writes, W.isBad] using this
    · simp [h, writes, W.isBad, AllFor]
  | tee a b iha ihb =>
    simp only [WF, Bool.and_eq_true] at hwf
    obtain ⟨a1, a2, a3⟩ := iha hwf.1
    obtain ⟨b1, b2, b3⟩ := ihb hwf.2
    simp only [mk, methName, table_facts.2.2.2.1, passOn_for, sel]
    refine ⟨by simp [W.isBad, a1, b1], by simp [writes, table_facts.2.2.2.2.2.2.2.1, a2, b2], ?_⟩
    intro x hx
    simp only [writes, table_facts.2.2.2.2.2.2.2.1, if_true] at hx
    rcases List.mem_append.mp hx with h | h
    · exact a3 x h
    · exact b3 x h
  | orElse a b iha ihb =>
    cases a with
    | sink k => simp [WF] at hwf
    | tee x y => simp [WF] at hwf
    | orElse x y => simp [WF] at hwf
    | boxed x => simp [WF] at hwf
    | maxLevel l e =>
      simp only [WF, Bool.and_eq_true] at hwf
      obtain ⟨b1, b2, b3⟩ := ihb hwf.2
      obtain ⟨a1, a2, a3⟩ := iha (by simpa [WF] using hwf.1)
      simp only [mk, methName, table_facts.2.2.2.2.1, passOn_for, guarded_le, sel] at a1 a2 a3 ⊢
      by_cases h : m.level ≤ l
      · simp only [h, if_true, writes, W.isBad] at a1 a2 a3 ⊢
        simp only [table_facts.2.2.2.2.2.2.2.2, if_true]
        exact ⟨a1, a2, a3⟩
      · simp only [h, if_false, writes, W.isBad] at a1 a2 a3 ⊢
        simp only [table_facts.2.2.2.2.2.2.2.2, if_true]
        exact ⟨b1, b2, b3⟩
    | minLevel l e =>
      simp only [WF, Bool.and_eq_true] at hwf
      obtain ⟨b1, b2, b3⟩ := ihb hwf.2
      obtain ⟨a1, a2, a3⟩ := iha (by simpa [WF] using hwf.1)
      simp only [mk, methName, table_facts.2.2.2.2.1, passOn_for, guarded_ge, sel] at a1 a2 a3 ⊢
      by_cases h : l ≤ m.level
      · simp only [h, if_true, writes, W.isBad] at a1 a2 a3 ⊢
        simp only [table_facts.2.2.2.2.2.2.2.2, if_true]
        exact ⟨a1, a2, a3⟩
      · simp only [h, if_false, writes, W.isBad] at a1 a2 a3 ⊢
        simp only [table_facts.2.2.2.2.2.2.2.2, if_true]
        exact ⟨b1, b2, b3⟩
    | filter p e =>
      simp only [WF, Bool.and_eq_true] at hwf
      obtain ⟨b1, b2, b3⟩ := ihb hwf.2
      obtain ⟨a1, a2, a3⟩ := iha (by simpa [WF] using hwf.1)
      simp only [mk, methName, table_facts.2.2.2.2.1, passOn_for, guarded_filter, sel] at a1 a2 a3 ⊢
      by_cases h : p.eval m = true
      · simp only [h, if_true, writes, W.isBad] at a1 a2 a3 ⊢
        simp only [table_facts.2.2.2.2.2.2.2.2, if_true]
        exact ⟨a1, a2, a3⟩
      · simp only [h, Bool.false_eq_true, if_false, writes, W.isBad] at a1 a2 a3 ⊢
        simp only [table_facts.2.2.2.2.2.2.2.2, if_true]
        exact ⟨b1, b2, b3⟩

/-- **C13.one_write_per_record** — for every record that formats successfully fmt asks the maker
exactly once, with the record's metadata, and writes the whole buffer exactly once: every selected
sink receives ONE write (the complete record), every other sink none -/
theorem one_write_per_record (e : WExpr) (hwf : WF e = true) (m : WMeta) :
    (emitRecord e m).map (·.1) = sel e m ∧ AllFor m (emitRecord e m) := by
  obtain ⟨_, h2, h3⟩ := routes_denote e hwf m
  simp only [emitRecord, on_event_facts.1, on_event_facts.2.1, on_event_facts.2.2.1, on_event_facts.2.2.2.1,
    beq_self_eq_true, Bool.and_self, if_true, List.replicate, List.flatten_cons, List.flatten_nil, List.append_nil]
  exact ⟨h2, h3⟩

/-- no sink is written twice for one record when the expression mentions it once -/
def sinks : WExpr → List Nat
  | .sink k => [k]
  | .maxLevel _ e => sinks e
  | .minLevel _ e => sinks e
  | .filter _ e => sinks e
  | .tee a b => sinks a ++ sinks b
  | .orElse a b => sinks a ++ sinks b
  | .boxed e => sinks e

theorem sel_sublist (e : WExpr) (m : WMeta) : (sel e m).Sublist (sinks e) := by
  induction e with
  | sink k => simp [sel, sinks]
  | boxed e ih => simpa [sel, sinks] using ih
  | maxLevel l e ih => simp only [sel, sinks]; split; exact ih; simp
  | minLevel l e ih => simp only [sel, sinks]; split; exact ih; simp
  | filter p e ih => simp only [sel, sinks]; split; exact ih; simp
  | tee a b iha ihb => simp only [sel, sinks]; exact List.Sublist.append iha ihb
  | orElse a b iha ihb =>
    simp only [sel, sinks]
    cases a with
    | maxLevel l e =>
      simp only [sel, sinks] at iha ⊢
      split
      · rename_i h; simp only [h, if_true] at iha; exact iha.trans (List.sublist_append_left _ _)
      · exact ihb.trans (List.sublist_append_right _ _)
    | minLevel l e =>
      simp only [sel, sinks] at iha ⊢
      split
      · rename_i h; simp only [h, if_true] at iha; exact iha.trans (List.sublist_append_left _ _)
      · exact ihb.trans (List.sublist_append_right _ _)
    | filter p e =>
      simp only [sel, sinks] at iha ⊢
      split
      · rename_i h; simp only [h, if_true] at iha; exact iha.trans (List.sublist_append_left _ _)
      · exact ihb.trans (List.sublist_append_right _ _)
    | sink k => simp [sel]
    | tee x y => simp [sel]
    | orElse x y => simp [sel]
    | boxed x => simp [sel]

/-- **C13.no_duplicate_delivery** — an expression that names each sink once never writes a record to a sink twice -/
theorem no_duplicate_delivery (e : WExpr) (hwf : WF e = true) (hd : (sinks e).Nodup) (m : WMeta) :
    ((emitRecord e m).map (·.1)).Nodup := by
  rw [(one_write_per_record e hwf m).1]
  exact (sel_sublist e m).nodup hd

/-- what fmt_subscriber.rs must say NOW about a busy buffer -/
theorem busy_buffer_fact : onEventBusyBufferFallsBack = true := by decide

/-- **C13.nested_record_not_lost** — an event that reaches the formatting layer while the same thread is formatting another one
(a value whose Debug / Display emits through the dispatcher) still gets its own complete record, asked for with ITS metadata and
written to exactly the sinks the expression denotes for it, before the outer record, which is unaffected -/
theorem nested_record_not_lost (e : WExpr) (hwf : WF e = true) (inner outer : WMeta) :
    (emitNested e inner outer).map (·.1) = sel e inner ++ sel e outer ∧
    emitNested e inner outer = emitRecord e inner ++ emitRecord e outer := by
  simp only [emitNested, busy_buffer_fact, if_true, List.map_append, (one_write_per_record e hwf inner).1,
    (one_write_per_record e hwf outer).1, and_self]

/-! ### histories of records (every length) -/

/-- fmt handles a history of records one after the other -/
def emitAll (e : WExpr) (ms : List WMeta) : List (Nat × Ask) := ms.flatMap (emitRecord e)

/-- **C13.history_routes** — over a history of ANY length the sequence of sinks written is the
concatenation, in the order of the records, of what the expression denotes for each record: no
record is lost, none is written out of order, none reaches a sink its definition does not name -/
theorem history_routes (e : WExpr) (hwf : WF e = true) (ms : List WMeta) :
    (emitAll e ms).map (·.1) = ms.flatMap (sel e) := by
  induction ms with
  | nil => simp [emitAll]
  | cons m ms ih =>
    simp only [emitAll, List.flatMap_cons, List.map_append] at ih ⊢
    rw [(one_write_per_record e hwf m).1, ih]

private theorem count_nodup (l : List Nat) (hd : l.Nodup) (k : Nat) :
    l.count k = if k ∈ l then 1 else 0 := by
  have h1 := List.nodup_iff_count.mp hd k
  split
  · rename_i h; have := List.count_pos_iff.mpr h; omega
  · rename_i h; exact List.count_eq_zero.mpr h

/-- **C13.history_exact_per_sink** — with each sink named once, the number of writes a sink receives
over a history equals the number of records that select it: exactly one write per selected record,
for every history and every sink -/
theorem history_exact_per_sink (e : WExpr) (hwf : WF e = true) (hd : (sinks e).Nodup)
    (ms : List WMeta) (k : Nat) :
    ((emitAll e ms).map (·.1)).count k = (ms.filter (fun m => decide (k ∈ sel e m))).length := by
  rw [history_routes e hwf ms]
  induction ms with
  | nil => simp
  | cons m ms ih =>
    simp only [List.flatMap_cons, List.count_append, ih, List.filter_cons]
    rw [count_nodup _ ((sel_sublist e m).nodup hd) k]
    by_cases h : k ∈ sel e m <;> simp [h] <;> omega

/-- **C13.history_silent_sink** — a sink that no record of the history selects is never written -/
theorem history_silent_sink (e : WExpr) (hwf : WF e = true) (ms : List WMeta) (k : Nat)
    (hk : ∀ m ∈ ms, k ∉ sel e m) : k ∉ (emitAll e ms).map (·.1) := by
  rw [history_routes e hwf ms]
  simp only [List.mem_flatMap, not_exists, not_and]
  exact fun m hm => hk m hm

/-! ### non-vacuity -/
example :
    let e : WExpr := .tee (.orElse (.maxLevel 2 (.sink 1)) (.filter (.targetIs 0) (.sink 2))) (.boxed (.minLevel 4 (.sink 3)))
    WF e = true ∧ (emitRecord e ⟨1, 0⟩).map (·.1) = [1] ∧ (emitRecord e ⟨3, 0⟩).map (·.1) = [2] ∧
    (emitRecord e ⟨5, 1⟩).map (·.1) = [3] ∧ (emitRecord e ⟨3, 1⟩).map (·.1) = [] := by decide

example :
    let e : WExpr := .tee (.orElse (.maxLevel 2 (.sink 1)) (.filter (.targetIs 0) (.sink 2))) (.boxed (.minLevel 4 (.sink 3)))
    (sinks e).Nodup ∧ (emitAll e [⟨1, 0⟩, ⟨3, 0⟩, ⟨5, 1⟩, ⟨3, 1⟩, ⟨1, 1⟩]).map (·.1) = [1, 2, 3, 1] := by decide

end C13
