/-
C18 — "log and tracing interoperate without losing, inventing or mislabelling records"

  A log record passed to the log-to-tracing bridge becomes exactly one tracing event when the
  current collector accepts the record's own level and target (and none otherwise), carrying the
  record's message and, after normalisation, its target, level, file, line and module path. In the
  other direction, with the log feature and no collector ever installed, each event and span
  lifecycle step emits exactly one log record with the corresponding level and target whose text
  contains the message and every field; once a collector has been installed none are emitted.
  Level conversion is a bijection that preserves order.

Model: Core/LogBridge.lean over facts extracted from dispatch.rs, macros.rs, log_tracer.rs and
tracing-log/src/lib.rs on every run; the level tables are C19's (Gen/Levels.lean).
-/
import TracingModel.Core.LogBridge
import TracingModel.Props.C19

namespace C18
open TM.LogBridge TM.Gen.LogFacts

/-- what the sources must say NOW -/
theorem code_facts :
    hasBeenSetReadsExists = true ∧ existsStoresTrue = 2 ∧ existsOtherWrites = 0 ∧ existsSetBySetDefault = true ∧
    existsSetBySetGlobal = true ∧ logGateIsNotHasBeenSet = true ∧ tracingLogChecksLoggerThenLogs = true ∧
    logTracerEnabledOrder = ["max-level", "ignore-prefix", "collector-enabled"] ∧ logTracerLogsIfEnabled = true ∧
    dispatchRecordOneEvent = true ∧ dispatchRecordFiveFields = true := by decide

/-- a collector whose max-level hint is sound (C08 / C01): it accepts nothing above the hint -/
def SoundHint (c : Coll) : Prop := ∀ l t, c.accepts l t = true → l ≤ c.maxLevel

/-- **C18.bridge_iff** — for EVERY record, ignore list and collector with a sound hint: the bridge produces exactly one
event iff the collector accepts the record's own level and target and the target is not ignored — and none otherwise —
and that event carries the record's message, target, level, file, line and module path (absent stays absent) -/
theorem bridge_iff (ign : List String) (c : Coll) (hc : SoundHint c) (r : Record) :
    (c.accepts r.level r.target = true ∧ ignored ign r.target = false →
       bridge ign c r = [{ level := r.level, target := r.target, message := r.message, modulePath := r.modulePath, file := r.file, line := r.line }]) ∧
    (¬ (c.accepts r.level r.target = true ∧ ignored ign r.target = false) → bridge ign c r = []) := by
  have hen : tracerEnabled ign c r = (decide (r.level ≤ c.maxLevel) && !ignored ign r.target && c.accepts r.level r.target) := by
    simp [tracerEnabled, code_facts.2.2.2.2.2.2.2.1, Bool.and_assoc]
  constructor
  · intro ⟨ha, hi⟩
    have := hc _ _ ha
    simp [bridge, hen, code_facts.2.2.2.2.2.2.2.2.1, code_facts.2.2.2.2.2.2.2.2.2.1, ha, hi, this]
  · intro h
    simp only [bridge, hen, code_facts.2.2.2.2.2.2.2.2.1, code_facts.2.2.2.2.2.2.2.2.2.1, Bool.true_and, Bool.and_true]
    by_cases ha : c.accepts r.level r.target = true
    · have hi : ignored ign r.target = true := by
        cases hx : ignored ign r.target with
        | true => rfl
        | false => exact absurd ⟨ha, hx⟩ h
      simp [hi]
    · simp [ha]

/-- **C18.levels_bijection_monotone** — the conversion between `log::Level` and `tracing::Level` is C19's bijection
(restated here: the bridge and the `log` feature use those tables) -/
theorem levels_bijection_monotone (l : TM.Gen.Levels.Lvl) :
    TM.Gen.Levels.levelAsTrace (TM.Gen.Levels.levelAsLog l) = l ∧ TM.Gen.Levels.levelAsLog (TM.Gen.Levels.levelAsTrace l) = l :=
  ⟨(C19.log_bijection_level l).1, (C19.log_bijection_level l).2.1⟩

/-- the flag only ever goes up -/
theorem exists_monotone (s : LState) (op : Op) (h : s.exists_ = true) : (lstep s op).1.exists_ = true := by
  cases op <;> simp [lstep, h]

/-- **C18.log_until_installed** — with the `log` feature, for EVERY history of emissions, scoped / global collector
installations and guard drops: an emission yields exactly one log record (its own level, target and text) iff NO collector
has been installed at any earlier point of the history — dropping the last scoped guard does not re-open the gate -/
theorem log_until_installed (pre : List Op) (lvl : Nat) (tgt text : String) (post : List Op) :
    (lrun LState.init (pre ++ .emit lvl tgt text :: post))[pre.length]? =
      some (if pre.any isInstall then [] else [(lvl, tgt, text)]) := by
  have key : ∀ (ops : List Op) (s : LState),
      (lrun s (ops ++ .emit lvl tgt text :: post))[ops.length]? =
        some (if s.exists_ || ops.any isInstall then [] else [(lvl, tgt, text)]) := by
    intro ops
    induction ops with
    | nil =>
      intro s
      simp only [List.nil_append, lrun, lstep, code_facts.1, code_facts.2.2.2.2.2.1, code_facts.2.2.2.2.2.2.1, Bool.and_self, if_true,
        List.length_nil, List.getElem?_cons_zero, List.any_nil, Bool.or_false, Bool.and_true]
      cases s.exists_ <;> rfl
    | cons op rest ih =>
      intro s
      simp only [List.cons_append, lrun, List.length_cons, List.getElem?_cons_succ, List.any_cons]
      rw [ih]
      congr 1
      cases op <;> simp [lstep, isInstall, code_facts.2.2.2.1, code_facts.2.2.2.2.1, Bool.or_assoc]
  simpa [LState.init] using key pre LState.init

/-! ### whole histories -/

/-- the normalized event a record denotes -/
def norm (r : Record) : Normalized :=
  { level := r.level, target := r.target, message := r.message, modulePath := r.modulePath, file := r.file, line := r.line }

/-- **C18.bridge_history** — for EVERY sequence of log records (any length), ignore list and collector with a sound hint: what
the collector receives through the bridge is exactly the accepted, not ignored records, each as its own normalized event, in the
order they were logged — none lost, none invented, none relabelled, none reordered -/
theorem bridge_history (ign : List String) (c : Coll) (hc : SoundHint c) (rs : List Record) :
    rs.flatMap (bridge ign c) =
      (rs.filter (fun r => c.accepts r.level r.target && !ignored ign r.target)).map norm := by
  induction rs with
  | nil => rfl
  | cons r rs ih =>
    simp only [List.flatMap_cons, ih, List.filter_cons]
    by_cases h : c.accepts r.level r.target = true ∧ ignored ign r.target = false
    · rw [(bridge_iff ign c hc r).1 h]; simp [h.1, h.2, norm]
    · rw [(bridge_iff ign c hc r).2 h]
      have : (c.accepts r.level r.target && !ignored ign r.target) = false := by
        cases ha : c.accepts r.level r.target <;> cases hi : ignored ign r.target <;> simp_all
      simp [this]

def emitOf : Op → Option (Nat × String × String)
  | .emit l t x => some (l, t, x)
  | _ => none

private theorem closed_gate_silent (ops : List Op) (s : LState) (h : s.exists_ = true) : (lrun s ops).flatten = [] := by
  induction ops generalizing s with
  | nil => rfl
  | cons op ops ih =>
    simp only [lrun, List.flatten_cons]
    rw [ih _ (exists_monotone s op h)]
    cases op <;> simp [lstep, h, code_facts.1, code_facts.2.2.2.2.2.1]

/-- **C18.log_history_exact** — with the `log` feature, for EVERY history: the complete sequence of log records is exactly the
emissions that precede the first collector installation (scoped or global), each with its own level, target and text, in order;
nothing after it, whatever guards are dropped later -/
theorem log_history_exact (ops : List Op) :
    (lrun LState.init ops).flatten = (ops.takeWhile (fun op => !isInstall op)).filterMap emitOf := by
  have key : ∀ (ops : List Op) (s : LState), s.exists_ = false →
      (lrun s ops).flatten = (ops.takeWhile (fun op => !isInstall op)).filterMap emitOf := by
    intro ops
    induction ops with
    | nil => intro s _; rfl
    | cons op rest ih =>
      intro s hs
      cases op with
      | emit l t x =>
        have e : isInstall (Op.emit l t x) = false := rfl
        simp only [lrun, List.flatten_cons, lstep, e, Bool.not_false, List.takeWhile_cons, if_true, List.filterMap_cons, emitOf]
        rw [ih s hs]
        simp [hs, code_facts.1, code_facts.2.2.2.2.2.1, code_facts.2.2.2.2.2.2.1]
      | dropGuard =>
        have e : isInstall Op.dropGuard = false := rfl
        simp only [lrun, List.flatten_cons, lstep, e, Bool.not_false, List.takeWhile_cons, if_true, List.filterMap_cons, emitOf,
          List.nil_append]
        exact ih _ hs
      | setDefault =>
        have e : isInstall Op.setDefault = true := rfl
        simp only [lrun, List.flatten_cons, lstep, e, Bool.not_true, List.takeWhile_cons, List.nil_append]
        simpa using closed_gate_silent rest _ (by simp [code_facts.2.2.2.1])
      | setGlobal =>
        have e : isInstall Op.setGlobal = true := rfl
        simp only [lrun, List.flatten_cons, lstep, e, Bool.not_true, List.takeWhile_cons, List.nil_append]
        simpa using closed_gate_silent rest _ (by simp [code_facts.2.2.2.2.1])
  exact key ops LState.init rfl

/-! ### non-vacuity -/
example : (lrun LState.init [.emit 3 "t" "a", .setDefault, .emit 3 "t" "b", .dropGuard, .emit 3 "t" "c"]).map (·.length) = [1, 0, 0, 0, 0] := by decide
example : (bridge ["hyper"] { maxLevel := 3, accepts := fun l t => decide (l ≤ 3) && t != "noisy" } ⟨2, "app", "hi", some "m", none, some 7⟩).length = 1 := by decide
example : (lrun LState.init [.emit 3 "t" "a", .dropGuard, .emit 2 "u" "b", .setDefault, .emit 3 "t" "c", .dropGuard, .emit 3 "t" "d"]).flatten =
    [(3, "t", "a"), (2, "u", "b")] := by decide

end C18
