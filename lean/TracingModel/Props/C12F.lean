/-
C12, continued: the state a running env-filter has built up (matchers of the live spans, levels raised on the thread) stays
consistent with the tables when a directive is added in place, so the verdict on every emission started after the change is the
specification's verdict computed from the EXTENDED tables (C11.dyn_passes_spec applies to the new tables and the old state).
-/
import TracingModel.Props.C11D
import TracingModel.Props.C12E

namespace C12
open TM TM.EnvDyn TM.Directive

def dynIn (ds : List DDir) : List DDir := ds.filter (fun d => d.isDynamic && !(true && d.isStatic))

theorem mkEnv_dynamics (ds : List DDir) : (mkEnv true ds).dynamics = dedup (dynIn ds) := rfl
theorem mkEnv_dynMax (ds : List DDir) : (mkEnv true ds).dynMax = (dynIn ds).foldl (fun a d => max a d.level) 0 := rfl

theorem foldl_max_ge (l : List DDir) (a : Nat) : a ≤ l.foldl (fun a d => max a d.level) a := by
  induction l generalizing a with
  | nil => exact Nat.le_refl _
  | cons x xs ih => exact Nat.le_trans (Nat.le_max_left _ _) (ih _)

/-- adding a directive never lowers the dynamic table's max level -/
theorem dynMax_mono (ds : List DDir) (d : DDir) : (mkEnv true ds).dynMax ≤ (mkEnv true (ds ++ [d])).dynMax := by
  rw [mkEnv_dynMax, mkEnv_dynMax]
  unfold dynIn
  rw [List.filter_append, List.foldl_append]
  exact foldl_max_ge _ _

theorem dedup_nil_iff (xs : List DDir) : dedup xs = [] ↔ xs = [] := by
  constructor
  · intro h
    cases hx : xs.reverse with
    | nil => simpa using hx
    | cons y ys =>
      have : xs = ys.reverse ++ [y] := by
        have := congrArg List.reverse hx
        simpa using this
      rw [this, dedup_append_one] at h
      simp at h
  · intro h; subst h; rfl

/-- … and a filter that has span-scoped directives keeps having them -/
theorem hasDynamics_mono (ds : List DDir) (d : DDir) (h : (mkEnv true (ds ++ [d])).hasDynamics = false) :
    (mkEnv true ds).hasDynamics = false := by
  unfold Env.hasDynamics at *
  rw [mkEnv_dynamics] at *
  have h1 : dedup (dynIn (ds ++ [d])) = [] := by simpa using h
  have h2 : dynIn (ds ++ [d]) = [] := (dedup_nil_iff _).mp h1
  have h3 : dynIn ds = [] := by
    unfold dynIn at *
    rw [List.filter_append] at h2
    exact (List.append_eq_nil_iff.mp h2).1
  simp [h3, dedup]

/-- the invariant that ties the filter's state to its tables survives `add_directive` on the running filter -/
theorem add_directive_keeps_inv (ds : List DDir) (d : DDir) (s : St) (ent : C11.Entered)
    (h : C11.DInv (mkEnv true ds) s ent) : C11.DInv (mkEnv true (ds ++ [d])) s ent := by
  have hm := dynMax_mono ds d
  refine ⟨h.scope, ?_, ?_, ?_⟩
  · intro x hx; exact Nat.le_trans (h.bound x hx) hm
  · intro p hp sm hsm; exact Nat.le_trans (h.stored p hp sm hsm) hm
  · intro hn; exact h.nodyn (hasDynamics_mono ds d hn)

/-- **C12.after_add_directive** — whatever state the running filter was in (any well-nested history before the change), an
emission started after the directive was added is let through exactly when the EXTENDED tables say so: it is a span the extended
dynamic table cares about, or the extended static table allows it, or a matching span entered on the thread right now (before
or after the change) had a level that allows it. -/
theorem after_add_directive (ds : List DDir) (d : DDir) (s : St) (ent : C11.Entered)
    (h : C11.DInv (mkEnv true ds) s ent) (m : CMeta) :
    passes (mkEnv true (ds ++ [d])) s m =
      (caredSpan (mkEnv true (ds ++ [d])) m || Directive.enabled (mkEnv true (ds ++ [d])).statics m.toMeta
        || ent.any (fun x => decide (m.level ≤ x.2))) :=
  C11.dyn_passes_spec _ ⟨_, rfl⟩ s ent (add_directive_keeps_inv ds d s ent h) m

end C12
