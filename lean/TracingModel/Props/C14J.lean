/-
C14, the headline — "every record is a single line that parses as one JSON object … faithful to the data".

An independent reader of JSON text (RFC 8259 values: null / true / false / numbers / strings with
escapes / arrays / objects; compact form) is defined here, and it is proved that reading the rendering
of ANY JSON value of the model — any nesting depth, any strings — gives back exactly that value and
leaves exactly the text that followed it.  Applied to a record: the line is ONE object followed by the
newline, and its members are the data the formatter was given.
-/
import TracingModel.Props.C14

namespace C14
open TM.Json

/-! ### the reader -/

def numChar (c : Nat) : Bool := (48 ≤ c && c ≤ 57) || c = 45 || c = 43 || c = 46 || c = 101 || c = 69
def numStart (c : Nat) : Bool := (48 ≤ c && c ≤ 57) || c = 45

/-- the body of a string, after the opening quote, up to and including the closing quote -/
def readBody : Nat → Str → Option (Str × Str)
  | 0, _ => none
  | _ + 1, [] => none
  | n + 1, c :: rest =>
    if c = 34 then some ([], rest)
    else match unesc1 (c :: rest) with
      | some (x, r) => (readBody n r).map (fun p => (x :: p.1, p.2))
      | none => none

mutual
  def readV : Nat → Str → Option (J × Str)
    | 0, _ => none
    | n + 1, s =>
      match s with
      | [] => none
      | c :: r =>
        if numStart c then some (.num ((c :: r).takeWhile numChar), (c :: r).dropWhile numChar)
        else match c :: r with
          | 110 :: 117 :: 108 :: 108 :: r => some (.null, r)
          | 116 :: 114 :: 117 :: 101 :: r => some (.bool true, r)
          | 102 :: 97 :: 108 :: 115 :: 101 :: r => some (.bool false, r)
          | 34 :: r => (readBody (r.length + 1) r).map (fun p => (.str p.1, p.2))
          | 91 :: 93 :: r => some (.arr [], r)
          | 91 :: r => (readElems n r).map (fun p => (.arr p.1, p.2))
          | 123 :: 125 :: r => some (.obj [], r)
          | 123 :: r => (readMembers n r).map (fun p => (.obj p.1, p.2))
          | _ => none
  /-- one or more values separated by commas, then `]` -/
  def readElems : Nat → Str → Option (List J × Str)
    | 0, _ => none
    | n + 1, s =>
      match readV n s with
      | some (v, 44 :: r) => (readElems n r).map (fun p => (v :: p.1, p.2))
      | some (v, 93 :: r) => some ([v], r)
      | _ => none
  /-- one or more `"key":value` separated by commas, then `}` -/
  def readMembers : Nat → Str → Option (List (Str × J) × Str)
    | 0, _ => none
    | n + 1, s =>
      match s with
      | 34 :: r =>
        match readBody (r.length + 1) r with
        | some (k, 58 :: r2) =>
          match readV n r2 with
          | some (v, 44 :: r3) => (readMembers n r3).map (fun p => ((k, v) :: p.1, p.2))
          | some (v, 125 :: r3) => some ([(k, v)], r3)
          | _ => none
        | _ => none
      | _ => none
end

/-! ### strings -/

theorem esc1_head_ne_quote (c : Nat) : ∀ x r, esc1 c = x :: r → x ≠ 34 := by
  intro x r h
  unfold esc1 at h
  split at h
  · cases h; decide
  split at h
  · cases h; decide
  split at h
  · cases h; decide
  split at h
  · cases h; decide
  split at h
  · cases h; decide
  split at h
  · cases h; decide
  split at h
  · cases h; decide
  split at h
  · cases h; decide
  · cases h; assumption

theorem readBody_escape (s : Str) (rest : Str) : ∀ n, (escape s).length < n →
    readBody n (escape s ++ [34] ++ rest) = some (s, rest) := by
  induction s with
  | nil =>
    intro n hn
    cases n with
    | zero => omega
    | succ n => simp [escape, readBody]
  | cons c cs ih =>
    intro n hn
    have hesc : escape (c :: cs) = esc1 c ++ escape cs := by simp [escape]
    rw [hesc] at hn ⊢
    have hne := esc1_ne_nil c
    cases he : esc1 c with
    | nil => exact absurd he hne
    | cons x xr =>
      have hx := esc1_head_ne_quote c x xr he
      cases n with
      | zero => omega
      | succ n =>
        have hun := esc1_unesc1 c (escape cs ++ [34] ++ rest)
        rw [he] at hun
        have hlen : (escape cs).length < n := by
          have : (esc1 c).length ≥ 1 := by rw [he]; simp
          simp only [List.length_append] at hn; omega
        simp only [List.cons_append, readBody, hx, if_false]
        have hun' : unesc1 (x :: (xr ++ (escape cs ++ [34] ++ rest))) = some (c, escape cs ++ [34] ++ rest) := by
          simpa [List.append_assoc] using hun
        have happ : xr ++ escape cs ++ [34] ++ rest = xr ++ (escape cs ++ [34] ++ rest) := by simp [List.append_assoc]
        rw [happ, hun']
        simp only [ih n hlen]
        rfl

theorem readBody_quote (s rest : Str) : readBody ((escape s ++ [34] ++ rest).length + 1) (escape s ++ [34] ++ rest) = some (s, rest) := by
  apply readBody_escape
  simp only [List.length_append]; omega

/-! ### well-formed values and sizes -/

def numTok (t : Str) : Prop := (∃ c r, t = c :: r ∧ numStart c = true) ∧ ∀ c ∈ t, numChar c = true

def RestOK (rest : Str) : Prop := ∀ c r, rest = c :: r → numChar c = false

mutual
  def wf : J → Prop
    | .num t => numTok t
    | .arr l => wfL l
    | .obj l => wfF l
    | _ => True
  def wfL : List J → Prop
    | [] => True
    | x :: r => wf x ∧ wfL r
  def wfF : List (Str × J) → Prop
    | [] => True
    | (_, v) :: r => wf v ∧ wfF r
end

mutual
  def jsize : J → Nat
    | .arr l => 1 + jsizeL l
    | .obj l => 1 + jsizeF l
    | _ => 1
  def jsizeL : List J → Nat
    | [] => 0
    | x :: r => jsize x + jsizeL r
  def jsizeF : List (Str × J) → Nat
    | [] => 0
    | (_, v) :: r => jsize v + jsizeF r
end

theorem jsize_pos (j : J) : 1 ≤ jsize j := by
  cases j <;> simp [jsize] <;> omega

theorem takeWhile_num (t rest : Str) (ht : ∀ c ∈ t, numChar c = true) (hr : RestOK rest) :
    (t ++ rest).takeWhile numChar = t ∧ (t ++ rest).dropWhile numChar = rest := by
  induction t with
  | nil =>
    cases rest with
    | nil => simp
    | cons c r => have := hr c r rfl; simp [List.takeWhile, List.dropWhile, this]
  | cons a as ih =>
    have ha := ht a (by simp)
    obtain ⟨i1, i2⟩ := ih (fun c hc => ht c (List.mem_cons_of_mem _ hc))
    simp [List.takeWhile, List.dropWhile, ha, i1, i2]

theorem restOK_comma (r : Str) : RestOK (44 :: r) := by intro c r' h; cases h; decide
theorem restOK_bracket (r : Str) : RestOK (93 :: r) := by intro c r' h; cases h; decide
theorem restOK_brace (r : Str) : RestOK (125 :: r) := by intro c r' h; cases h; decide

theorem readV_num (n : Nat) (t rest : Str) (ht : numTok t) (hr : RestOK rest) :
    readV (n + 1) (t ++ rest) = some (.num t, rest) := by
  obtain ⟨⟨c, r, rfl, hc⟩, hall⟩ := ht
  obtain ⟨i1, i2⟩ := takeWhile_num (c :: r) rest hall hr
  unfold readV
  simp only [List.cons_append, hc, if_true]
  rw [← List.cons_append, i1, i2]

/-! ### reading back what was rendered -/

theorem render_head (j : J) (hw : wf j) : ∃ c r, render j = c :: r ∧ c ≠ 93 := by
  cases j with
  | null => exact ⟨110, _, rfl, by decide⟩
  | bool b => cases b <;> exact ⟨_, _, rfl, by decide⟩
  | num t =>
    simp only [wf] at hw
    obtain ⟨⟨c, r, rfl, hc⟩, _⟩ := hw
    refine ⟨c, r, rfl, ?_⟩
    intro e; subst e; revert hc; decide
  | str s => exact ⟨34, escape s ++ [34], by simp [render, quote], by decide⟩
  | arr l => exact ⟨91, renderList l ++ [93], by simp [render], by decide⟩
  | obj l => exact ⟨123, renderFields l ++ [125], by simp [render], by decide⟩

theorem renderList_cons2 (x y : J) (ys : List J) : renderList (x :: y :: ys) = render x ++ [44] ++ renderList (y :: ys) := by
  simp [renderList]

theorem renderFields_cons2 (k : Str) (v : J) (p : Str × J) (ps : List (Str × J)) :
    renderFields ((k, v) :: p :: ps) = quote k ++ [58] ++ render v ++ [44] ++ renderFields (p :: ps) := by
  simp [renderFields]

theorem readV_null (n : Nat) (rest : Str) : readV (n + 1) ([110, 117, 108, 108] ++ rest) = some (.null, rest) := by
  simp [readV, numStart]
theorem readV_true (n : Nat) (rest : Str) : readV (n + 1) ([116, 114, 117, 101] ++ rest) = some (.bool true, rest) := by
  simp [readV, numStart]
theorem readV_false (n : Nat) (rest : Str) : readV (n + 1) ([102, 97, 108, 115, 101] ++ rest) = some (.bool false, rest) := by
  simp [readV, numStart]
theorem readV_str (n : Nat) (s rest : Str) : readV (n + 1) (quote s ++ rest) = some (.str s, rest) := by
  have : quote s ++ rest = 34 :: (escape s ++ [34] ++ rest) := by simp [quote]
  rw [this]
  simp only [readV, numStart]
  have hq := readBody_quote s rest
  simp at hq ⊢
  rw [hq]
theorem readV_emptyArr (n : Nat) (rest : Str) : readV (n + 1) ([91] ++ [] ++ [93] ++ rest) = some (.arr [], rest) := by
  simp [readV, numStart]
theorem readV_emptyObj (n : Nat) (rest : Str) : readV (n + 1) ([123] ++ [] ++ [125] ++ rest) = some (.obj [], rest) := by
  simp [readV, numStart]

theorem readV_arr_step (n : Nat) (l : List J) (rest : Str) (hl : l ≠ []) (hw : wfL l)
    (h : readElems n (renderList l ++ [93] ++ rest) = some (l, rest)) :
    readV (n + 1) (render (.arr l) ++ rest) = some (.arr l, rest) := by
  cases l with
  | nil => exact absurd rfl hl
  | cons x xs =>
    obtain ⟨c, r, hc, hne⟩ := render_head x (by simp only [wfL] at hw; exact hw.1)
    have hrl : ∃ r', renderList (x :: xs) = c :: r' := by
      cases xs with
      | nil => exact ⟨r, by simp [renderList, hc]⟩
      | cons y ys => exact ⟨r ++ [44] ++ renderList (y :: ys), by simp [renderList_cons2, hc]⟩
    obtain ⟨r', hr'⟩ := hrl
    have e : render (.arr (x :: xs)) ++ rest = 91 :: (renderList (x :: xs) ++ [93] ++ rest) := by simp [render]
    rw [e]
    rw [hr'] at h ⊢
    have h' : readElems n (c :: (r' ++ 93 :: rest)) = some (x :: xs, rest) := by simpa [List.append_assoc] using h
    simp [readV, numStart, hne, h']

theorem readV_obj_step (n : Nat) (l : List (Str × J)) (rest : Str) (hl : l ≠ [])
    (h : readMembers n (renderFields l ++ [125] ++ rest) = some (l, rest)) :
    readV (n + 1) (render (.obj l) ++ rest) = some (.obj l, rest) := by
  cases l with
  | nil => exact absurd rfl hl
  | cons p ps =>
    obtain ⟨k, v⟩ := p
    have hrl : ∃ r', renderFields ((k, v) :: ps) = 34 :: r' := by
      cases ps with
      | nil => exact ⟨escape k ++ [34] ++ [58] ++ render v, by simp [renderFields, quote]⟩
      | cons q qs => exact ⟨escape k ++ [34] ++ [58] ++ render v ++ [44] ++ renderFields (q :: qs), by simp [renderFields_cons2, quote]⟩
    obtain ⟨r', hr'⟩ := hrl
    have e : render (.obj ((k, v) :: ps)) ++ rest = 123 :: (renderFields ((k, v) :: ps) ++ [125] ++ rest) := by simp [render]
    rw [e]
    rw [hr'] at h ⊢
    have h' : readMembers n (34 :: (r' ++ 125 :: rest)) = some ((k, v) :: ps, rest) := by simpa [List.append_assoc] using h
    simp [readV, numStart, h']

/-- **the reader inverts the renderer**, for values, non-empty element lists and non-empty member lists alike -/
theorem roundtrip (n : Nat) :
    (∀ j rest, wf j → RestOK rest → 2 * jsize j ≤ n → readV n (render j ++ rest) = some (j, rest)) ∧
    (∀ l rest, wfL l → l ≠ [] → 2 * jsizeL l + 1 ≤ n → readElems n (renderList l ++ [93] ++ rest) = some (l, rest)) ∧
    (∀ l rest, wfF l → l ≠ [] → 2 * jsizeF l + 1 ≤ n → readMembers n (renderFields l ++ [125] ++ rest) = some (l, rest)) := by
  induction n with
  | zero =>
    refine ⟨?_, ?_, ?_⟩
    · intro j rest _ _ h; have := jsize_pos j; omega
    · intro l rest _ _ h; omega
    · intro l rest _ _ h; omega
  | succ n ih =>
    obtain ⟨ihV, ihL, ihF⟩ := ih
    refine ⟨?_, ?_, ?_⟩
    · intro j rest hw hr hn
      cases j with
      | null => exact readV_null n rest
      | bool b =>
        cases b with
        | false => exact readV_false n rest
        | true => exact readV_true n rest
      | num t => exact readV_num n t rest (by simpa [wf] using hw) hr
      | str s => exact readV_str n s rest
      | arr l =>
        cases l with
        | nil => exact readV_emptyArr n rest
        | cons x xs =>
          apply readV_arr_step n (x :: xs) rest (by simp) (by simpa [wf] using hw)
          apply ihL (x :: xs) rest (by simpa [wf] using hw) (by simp)
          simp only [jsize] at hn; omega
      | obj l =>
        cases l with
        | nil => exact readV_emptyObj n rest
        | cons p ps =>
          apply readV_obj_step n (p :: ps) rest (by simp)
          apply ihF (p :: ps) rest (by simpa [wf] using hw) (by simp)
          simp only [jsize] at hn; omega
    · intro l rest hw hl hn
      cases l with
      | nil => exact absurd rfl hl
      | cons x xs =>
        simp only [wfL] at hw
        cases xs with
        | nil =>
          have hx : 2 * jsize x ≤ n := by simp only [jsizeL] at hn; omega
          have := ihV x (93 :: rest) hw.1 (restOK_bracket rest) hx
          have e : renderList [x] ++ [93] ++ rest = render x ++ 93 :: rest := by simp [renderList]
          rw [e]
          simp only [readElems, this]
        | cons y ys =>
          have hx : 2 * jsize x ≤ n := by simp only [jsizeL] at hn; omega
          have hrest : 2 * jsizeL (y :: ys) + 1 ≤ n := by
            have := jsize_pos x; simp only [jsizeL] at hn ⊢; omega
          have h1 := ihV x (44 :: (renderList (y :: ys) ++ [93] ++ rest)) hw.1 (restOK_comma _) hx
          have h2 := ihL (y :: ys) rest hw.2 (by simp) hrest
          have e : renderList (x :: y :: ys) ++ [93] ++ rest = render x ++ 44 :: (renderList (y :: ys) ++ [93] ++ rest) := by
            simp [renderList_cons2, List.append_assoc]
          rw [e]
          simp only [readElems, h1, h2]
          rfl
    · intro l rest hw hl hn
      cases l with
      | nil => exact absurd rfl hl
      | cons p ps =>
        obtain ⟨k, v⟩ := p
        simp only [wfF] at hw
        cases ps with
        | nil =>
          have hx : 2 * jsize v ≤ n := by simp only [jsizeF] at hn; omega
          have h1 := ihV v (125 :: rest) hw.1 (restOK_brace rest) hx
          have e : renderFields [(k, v)] ++ [125] ++ rest = 34 :: (escape k ++ [34] ++ (58 :: (render v ++ 125 :: rest))) := by
            simp [renderFields, quote, List.append_assoc]
          rw [e]
          have hb := readBody_quote k (58 :: (render v ++ 125 :: rest))
          simp only [readMembers]
          simp at hb ⊢
          rw [hb]
          simp only [h1]
        | cons q qs =>
          have hx : 2 * jsize v ≤ n := by simp only [jsizeF] at hn; omega
          have hrest : 2 * jsizeF (q :: qs) + 1 ≤ n := by
            have := jsize_pos v; simp only [jsizeF] at hn ⊢; omega
          have h1 := ihV v (44 :: (renderFields (q :: qs) ++ [125] ++ rest)) hw.1 (restOK_comma _) hx
          have h2 := ihF (q :: qs) rest hw.2 (by simp) hrest
          have e : renderFields ((k, v) :: q :: qs) ++ [125] ++ rest =
              34 :: (escape k ++ [34] ++ (58 :: (render v ++ 44 :: (renderFields (q :: qs) ++ [125] ++ rest)))) := by
            simp [renderFields_cons2, quote, List.append_assoc]
          rw [e]
          have hb := readBody_quote k (58 :: (render v ++ 44 :: (renderFields (q :: qs) ++ [125] ++ rest)))
          simp only [readMembers]
          simp at hb h1 h2 ⊢
          rw [hb]
          simp only [h1, h2]
          rfl

/-- **C14.render_roundtrip** — reading the rendering of ANY well-formed JSON value (any depth, any strings, any keys),
followed by any text that does not continue a number, gives back exactly that value and exactly that text -/
theorem render_roundtrip (j : J) (rest : Str) (hw : wf j) (hr : RestOK rest) :
    readV (2 * jsize j) (render j ++ rest) = some (j, rest) :=
  (roundtrip (2 * jsize j)).1 j rest hw hr (Nat.le_refl _)

/-! ### the numbers the formatter writes are JSON numbers -/

theorem natDigits_ok : ∀ (fuel n : Nat), (natDigits fuel n ≠ []) ∧ ∀ c ∈ natDigits fuel n, 48 ≤ c ∧ c ≤ 57 := by
  intro fuel
  induction fuel with
  | zero => intro n; simp [natDigits]
  | succ f ih =>
    intro n
    simp only [natDigits]
    by_cases h : n < 10
    · simp only [h, if_true]
      refine ⟨by simp, ?_⟩
      intro c hc
      simp only [List.mem_singleton] at hc
      omega
    · simp only [h, if_false]
      obtain ⟨i1, i2⟩ := ih (n / 10)
      refine ⟨by simp, ?_⟩
      intro c hc
      rcases List.mem_append.mp hc with hc | hc
      · exact i2 c hc
      · simp only [List.mem_singleton] at hc
        have : n % 10 < 10 := Nat.mod_lt _ (by omega)
        omega

theorem digit_numChar (c : Nat) (h : 48 ≤ c ∧ c ≤ 57) : numChar c = true ∧ numStart c = true := by
  simp [numChar, numStart, h.1, h.2]

theorem renderNat_numTok (n : Nat) : numTok (renderNat n) := by
  obtain ⟨h1, h2⟩ := natDigits_ok (n + 1) n
  simp only [renderNat]
  cases hd : natDigits (n + 1) n with
  | nil => exact absurd hd h1
  | cons c r =>
    rw [hd] at h2
    refine ⟨⟨c, r, rfl, (digit_numChar c (h2 c (by simp))).2⟩, ?_⟩
    intro x hx
    exact (digit_numChar x (h2 x hx)).1

theorem renderInt_numTok (n : Int) : numTok (renderInt n) := by
  cases n with
  | ofNat k => exact renderNat_numTok k
  | negSucc k =>
    simp only [renderInt]
    obtain ⟨_, hall⟩ := renderNat_numTok (k + 1)
    refine ⟨⟨45, renderNat (k + 1), rfl, by decide⟩, ?_⟩
    intro x hx
    rcases List.mem_cons.mp hx with rfl | hx
    · decide
    · exact hall x hx

/-- float tokens cross the harness as opaque decimal tokens: they are JSON number tokens -/
def FloatsOK (fs : List (Str × Val)) : Prop := ∀ k t, (k, Val.f (some t)) ∈ fs → numTok t

theorem toJ_wf (k : Str) (v : Val) (j : J) (fs : List (Str × Val)) (hm : (k, v) ∈ fs) (hf : FloatsOK fs) (h : v.toJ = some j) : wf j := by
  cases v with
  | i n => simp only [Val.toJ, Option.some.injEq] at h; subst h; exact renderInt_numTok n
  | u n => simp only [Val.toJ, Option.some.injEq] at h; subst h; exact renderNat_numTok n
  | f t =>
    cases t with
    | none => simp only [Val.toJ, Option.some.injEq] at h; subst h; trivial
    | some t => simp only [Val.toJ, Option.some.injEq] at h; subst h; exact hf k t hm
  | b x => simp only [Val.toJ, Option.some.injEq] at h; subst h; trivial
  | s x => simp only [Val.toJ, Option.some.injEq] at h; subst h; trivial
  | d x => simp only [Val.toJ, Option.some.injEq] at h; subst h; trivial
  | empty => simp [Val.toJ] at h

theorem wfF_of_forall (l : List (Str × J)) (h : ∀ p ∈ l, wf p.2) : wfF l := by
  induction l with
  | nil => trivial
  | cons p ps ih =>
    obtain ⟨k, v⟩ := p
    exact ⟨h (k, v) (by simp), ih (fun q hq => h q (List.mem_cons_of_mem _ hq))⟩

theorem forall_of_wfF (l : List (Str × J)) (h : wfF l) : ∀ p ∈ l, wf p.2 := by
  induction l with
  | nil => intro p hp; cases hp
  | cons p ps ih =>
    obtain ⟨k, v⟩ := p
    intro q hq
    rcases List.mem_cons.mp hq with rfl | hq
    · exact h.1
    · exact ih h.2 q hq

theorem wfL_of_forall (l : List J) (h : ∀ p ∈ l, wf p) : wfL l := by
  induction l with
  | nil => trivial
  | cons p ps ih => exact ⟨h p (by simp), ih (fun q hq => h q (List.mem_cons_of_mem _ hq))⟩

theorem wfF_append (a b : List (Str × J)) (ha : wfF a) (hb : wfF b) : wfF (a ++ b) := by
  apply wfF_of_forall
  intro p hp
  rcases List.mem_append.mp hp with hp | hp
  · exact forall_of_wfF a ha p hp
  · exact forall_of_wfF b hb p hp

theorem eventFields_wf (fs : List (Str × Val)) (hf : FloatsOK fs) : wfF (eventFields fs) := by
  apply wfF_of_forall
  intro p hp
  simp only [eventFields, List.mem_filterMap] at hp
  obtain ⟨⟨k, v⟩, hm, hj⟩ := hp
  simp only [Option.map_eq_some_iff] at hj
  obtain ⟨j, hj, rfl⟩ := hj
  exact toJ_wf k v j fs hm hf hj

theorem spanObj_wf (sd : SpanData) (h : wfF sd.fields) : wf (spanObj sd) := by
  simp only [spanObj, wf]
  exact wfF_append _ _ h ⟨trivial, trivial⟩

theorem eventObj_wf (c : Cfg) (lvl : Nat) (target : Str) (fs : List (Str × Val)) (scope : List SpanData)
    (hf : FloatsOK fs) (hs : ∀ sd ∈ scope, wfF sd.fields) : wf (eventObj c lvl target fs scope) := by
  simp only [eventObj, wf]
  apply wfF_append
  · apply wfF_append
    · apply wfF_append
      · split <;> simp [wfF, wf]
      · split
        · exact eventFields_wf fs hf
        · exact ⟨by simp only [wf]; exact eventFields_wf fs hf, trivial⟩
    · split <;> simp [wfF, wf]
  · cases hl : scope.getLast? with
    | none => trivial
    | some leaf =>
      simp only []
      have hleaf : wfF leaf.fields := hs leaf (List.mem_of_getLast? hl)
      apply wfF_append
      · split
        · exact ⟨spanObj_wf leaf hleaf, trivial⟩
        · trivial
      · split
        · refine ⟨?_, trivial⟩
          simp only [wf]
          apply wfL_of_forall
          intro p hp
          simp only [List.mem_map] at hp
          obtain ⟨sd, hsd, rfl⟩ := hp
          exact spanObj_wf sd (hs sd hsd)
        · trivial

/-- **C14.record_is_one_json_object** — every record line, for EVERY configuration of level / target / flatten_event /
current_span / span_list, every set of event fields (any names, any strings, integers, booleans, floats, Debug / Display
texts) and every span scope: an independent JSON reader consumes the line up to its newline as ONE value, that value is an
object, and it is exactly the object the formatter was given — nothing is lost or altered by the text form -/
theorem record_is_one_json_object (c : Cfg) (lvl : Nat) (target : Str) (fs : List (Str × Val)) (scope : List SpanData)
    (hf : FloatsOK fs) (hs : ∀ sd ∈ scope, wfF sd.fields) :
    readV (2 * jsize (eventObj c lvl target fs scope)) (recordLine c lvl target fs scope) = some (eventObj c lvl target fs scope, [10]) ∧
    ∃ members, eventObj c lvl target fs scope = .obj members := by
  refine ⟨?_, ⟨_, rfl⟩⟩
  simp only [recordLine]
  exact render_roundtrip _ [10] (eventObj_wf c lvl target fs scope hf hs) (by intro x r h; cases h; decide)

/-- every recorded event field is a member, under its own name, with the value of the documented type mapping -/
theorem event_field_present (fs : List (Str × Val)) (k : Str) (v : Val) (j : J) (hm : (k, v) ∈ fs) (hj : v.toJ = some j) :
    (k, j) ∈ eventFields fs := by
  simp only [eventFields, List.mem_filterMap]
  exact ⟨(k, v), hm, by simp [hj]⟩

/-- what `record` stores stays well-formed JSON (so the hypothesis on span fields above is met by every history) -/
theorem recordInto_wf (stored : List (Str × J)) (fs : List (Str × Val)) (hst : wfF stored) (hf : FloatsOK fs) : wfF (recordInto stored fs) := by
  have key : ∀ (l : List (Str × Val)) (m : List (Str × J)), (∀ p ∈ l, p ∈ fs) → wfF m →
      wfF (l.foldl (fun m (kv : Str × Val) => match kv.2.toJ with
        | some j => insertSorted (stripRaw kv.1 kv.2) j m
        | none => m) m) := by
    intro l
    induction l with
    | nil => intro m _ hm; exact hm
    | cons p ps ih =>
      intro m hsub hm
      obtain ⟨k, v⟩ := p
      simp only [List.foldl_cons]
      apply ih _ (fun q hq => hsub q (List.mem_cons_of_mem _ hq))
      cases hj : v.toJ with
      | none => simpa [hj] using hm
      | some j =>
        simp only [hj]
        have hwj := toJ_wf k v j fs (hsub (k, v) (by simp)) hf hj
        apply wfF_of_forall
        intro q hq
        have hall := forall_of_wfF m hm
        -- members of an insertion are the inserted pair or old members
        have hmem : ∀ (m : List (Str × J)), q ∈ insertSorted (stripRaw k v) j m → q = (stripRaw k v, j) ∨ q ∈ m := by
          intro m
          induction m with
          | nil => intro h; simp [insertSorted] at h; exact Or.inl h
          | cons a as iha =>
            obtain ⟨k', v'⟩ := a
            intro h
            simp only [insertSorted] at h
            split at h
            · rcases List.mem_cons.mp h with h | h
              · exact Or.inl h
              · exact Or.inr (List.mem_cons_of_mem _ h)
            · split at h
              · rcases List.mem_cons.mp h with h | h
                · exact Or.inl h
                · exact Or.inr h
              · rcases List.mem_cons.mp h with h | h
                · exact Or.inr (by rw [h]; simp)
                · rcases iha h with h | h
                  · exact Or.inl h
                  · exact Or.inr (List.mem_cons_of_mem _ h)
        rcases hmem m hq with rfl | hq
        · exact hwj
        · exact hall q hq
  simp only [recordInto]
  exact key fs stored (fun p hp => hp) hst

/-- non-vacuity: a nested record with hostile strings reads back -/
example :
    let j : J := .obj [(ofAscii "a\"b", .arr [.num (renderInt (-12)), .str [34, 92, 10, 0x1F600], .obj [], .arr [], .null]),
                       (ofAscii "", .bool true)]
    (readV (2 * jsize j) (render j ++ [10])).map (fun p => (render p.1, p.2)) = some (render j, [10]) ∧
    render j = ofAscii "{\"a\\\"b\":[-12,\"\\\"\\\\\\n" ++ [0x1F600] ++ ofAscii "\",{},[],null],\"\":true}" := by decide

/-! ### a stream of records (every length) -/

/-- a line-oriented reader of the output stream: one JSON value, then the newline, then the next line -/
def readStream : List Nat → Str → Option (List J)
  | [], [] => some []
  | [], _ :: _ => none
  | f :: fs, s =>
    match readV f s with
    | some (j, 10 :: rest) => (readStream fs rest).map (j :: ·)
    | _ => none

/-- **C14.stream_roundtrip** — the concatenation of ANY number of rendered well-formed values, each followed by its newline, is
read back line by line as exactly those values in exactly that order: no line swallows part of the next, none is split -/
theorem stream_roundtrip (js : List J) (hw : ∀ j ∈ js, wf j) :
    readStream (js.map (fun j => 2 * jsize j)) (js.flatMap (fun j => render j ++ [10])) = some js := by
  induction js with
  | nil => simp [readStream]
  | cons j js ih =>
    have h1 : readV (2 * jsize j) (render j ++ (10 :: js.flatMap (fun j => render j ++ [10]))) =
        some (j, 10 :: js.flatMap (fun j => render j ++ [10])) :=
      render_roundtrip j _ (hw j (by simp)) (by intro x r h; cases h; decide)
    have h2 := ih (fun x hx => hw x (by simp [hx]))
    simp only [List.map_cons, List.flatMap_cons, List.append_assoc, List.cons_append, List.nil_append, readStream, h1, h2,
      Option.map_some]

/-- one record of the history: configuration, level, target, event fields, span scope -/
structure Rec where
  c : Cfg
  lvl : Nat
  target : Str
  fs : List (Str × Val)
  scope : List SpanData

def Rec.obj (r : Rec) : J := eventObj r.c r.lvl r.target r.fs r.scope
def Rec.line (r : Rec) : Str := recordLine r.c r.lvl r.target r.fs r.scope

/-- **C14.output_is_one_object_per_line** — the whole output of a history of records of ANY length (every configuration, every
field set, every scope) is read back by the line-oriented reader as exactly one object per record, in the order of the records,
each the object the formatter was given -/
theorem output_is_one_object_per_line (rs : List Rec)
    (hf : ∀ r ∈ rs, FloatsOK r.fs) (hs : ∀ r ∈ rs, ∀ sd ∈ r.scope, wfF sd.fields) :
    readStream (rs.map (fun r => 2 * jsize r.obj)) (rs.flatMap Rec.line) = some (rs.map Rec.obj) := by
  have h := stream_roundtrip (rs.map Rec.obj) (by
    intro j hj
    obtain ⟨r, hr, rfl⟩ := List.mem_map.mp hj
    exact eventObj_wf r.c r.lvl r.target r.fs r.scope (hf r hr) (hs r hr))
  have hl : Rec.line = fun a : Rec => render (eventObj a.c a.lvl a.target a.fs a.scope) ++ [10] := rfl
  rw [hl]
  simpa [List.map_map, List.flatMap_map, Function.comp_def, Rec.obj] using h


example :
    let js : List J := [.obj [(ofAscii "a", .arr [.num (ofAscii "-12"), .null])], .obj [], .obj [(ofAscii "", .bool true)]]
    (readStream (js.map (fun j => 2 * jsize j)) (js.flatMap (fun j => render j ++ [10]))).map (·.map render) = some (js.map render) ∧
    (readStream (js.map (fun j => 2 * jsize j)) ((js.flatMap (fun j => render j ++ [10])).drop 1)).map (·.map render) = none := by
  decide

end C14
