/-
C02, the live-scope counter under real interleavings — `get_default` goes straight to the global default exactly when
SCOPED_COUNT reads 0, so "an emission is handed to the innermost still-live scope of its thread" needs the counter to BE the
number of live scopes of the process whatever threads open and close scopes at the same time.

Model: Core/AtomicCount.lean (one step = one atomic operation on the counter; any number of threads, any schedule); whether
an open is ONE fetch_add and a close ONE fetch_sub is extracted from dispatch.rs on every run (Gen/AtomicCounts.lean).
-/
import TracingModel.Props.C02G
import TracingModel.Lemmas.AtomicCount

namespace C02
open TM.AtomicCount TM.Gen.AtomicCounts

/-- **C02.scope_counter_code_facts** — State::set_default bumps SCOPED_COUNT with one fetch_add and nothing else, Drop for
DefaultGuard lowers it with one fetch_sub (re-extracted from dispatch.rs on every run) -/
theorem scope_counter_code_facts : scopeOpenIsRmw = true ∧ scopeCloseIsRmw = true := by decide

/-- **C02.scope_counter_exact** — `c0` scopes live at the start, any threads each opening one scope or closing one of those,
every interleaving of the counter operations as the code performs them: SCOPED_COUNT = scopes live now -/
theorem scope_counter_exact (c0 : Nat) (ths : List Nat) (hnd : ths.Nodup) (kind : Nat → Kind)
    (hroom : (decs kind ths).length ≤ c0) (sched : List Nat) (hs : ∀ t ∈ sched, t ∈ ths) :
    let s := run scopeOpenIsRmw true kind (start c0) sched
    s.c + finished s (decs kind ths) = c0 + finished s (incs kind ths) := by
  rw [scope_counter_code_facts.1]
  exact mixed_exact c0 ths hnd kind hroom sched hs

/-- **C02.fast_path_sound** — hence the fast path (counter reads 0) is taken only when no scope is live anywhere -/
theorem fast_path_sound (c0 : Nat) (ths : List Nat) (hnd : ths.Nodup) (kind : Nat → Kind)
    (hroom : (decs kind ths).length ≤ c0) (sched : List Nat) (hs : ∀ t ∈ sched, t ∈ ths) :
    let s := run scopeOpenIsRmw true kind (start c0) sched
    s.c = 0 ↔ c0 + finished s (incs kind ths) = finished s (decs kind ths) := by
  have := scope_counter_exact c0 ths hnd kind hroom sched hs
  simp only at this ⊢
  omega

/-- **C02.scope_counter_witness** — it depends on the open being one atomic operation: with a load followed by a store two
threads opening a scope together leave the counter at 1, and after one of them closes it reads 0 with a scope still live -/
theorem scope_counter_witness :
    (run false true (fun _ => .inc) (start 0) [0, 1, 0, 1]).c = 1 ∧
    finished (run false true (fun _ => .inc) (start 0) [0, 1, 0, 1]) [0, 1] = 2 := by decide

example : (run scopeOpenIsRmw true (fun t => if t < 2 then .dec else .inc) (start 2) [3, 0, 2, 1, 4]).c = 3 := by decide

end C02
