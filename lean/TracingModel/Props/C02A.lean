/-
C02, the live-scope counter under real interleavings — `get_default` goes straight to the global default exactly when
SCOPED_COUNT reads 0, so "an emission is handed to the innermost still-live scope of its thread" needs the counter to BE the
number of live scopes of the process whatever threads open and close scopes at the same time.

Model: Core/AtomicCount.lean (one step = one atomic operation on the counter; any number of threads, any schedule); whether
an open is ONE fetch_add and a close ONE fetch_sub is extracted from dispatch.rs on every run (Gen/AtomicCounts.lean).
-/
import TracingModel.Props.C02G
import TracingModel.Lemmas.AtomicCount
import TracingModel.Lemmas.ScopeRace

namespace C02
open TM.AtomicCount TM.Gen.AtomicCounts

/-- **C02.scope_counter_code_facts** — State::set_default bumps SCOPED_COUNT with one fetch_add and nothing else, Drop for
DefaultGuard lowers it with one fetch_sub (re-extracted from dispatch.rs on every run) -/
theorem scope_counter_code_facts : scopeOpenIsRmw = true ∧ scopeCloseIsRmw = true := by decide

/-- **C02.scope_counter_exact** — `c0` scopes live at the start, any threads each opening one scope or closing one of those,
every interleaving of the counter operations as the code performs them: SCOPED_COUNT = scopes live now -/
theorem scope_counter_exact (c0 : Nat) (ths : List Nat) (hnd : ths.Nodup) (kind : Nat → Kind)
    (hroom : (decs kind ths).length ≤ c0) (sched : List Nat) (hs : ∀ t ∈ sched, t ∈ ths) :
    let s := run scopeOpenIsRmw true kind (start c0) sched
    s.c + finished s (decs kind ths) = c0 + finished s (incs kind ths) := by
  rw [scope_counter_code_facts.1]
  exact mixed_exact c0 ths hnd kind hroom sched hs

/-- **C02.fast_path_sound** — hence the fast path (counter reads 0) is taken only when no scope is live anywhere -/
theorem fast_path_sound (c0 : Nat) (ths : List Nat) (hnd : ths.Nodup) (kind : Nat → Kind)
    (hroom : (decs kind ths).length ≤ c0) (sched : List Nat) (hs : ∀ t ∈ sched, t ∈ ths) :
    let s := run scopeOpenIsRmw true kind (start c0) sched
    s.c = 0 ↔ c0 + finished s (incs kind ths) = finished s (decs kind ths) := by
  have := scope_counter_exact c0 ths hnd kind hroom sched hs
  simp only at this ⊢
  omega

/-- **C02.scope_counter_witness** — it depends on the open being one atomic operation: with a load followed by a store two
threads opening a scope together leave the counter at 1, and after one of them closes it reads 0 with a scope still live -/
theorem scope_counter_witness :
    (run false true (fun _ => .inc) (start 0) [0, 1, 0, 1]).c = 1 ∧
    finished (run false true (fun _ => .inc) (start 0) [0, 1, 0, 1]) [0, 1] = 2 := by decide

example : (run scopeOpenIsRmw true (fun t => if t < 2 then .dec else .inc) (start 2) [3, 0, 2, 1, 4]).c = 3 := by decide

/-! ### scoped defaults of several threads and the fast path, together

Core/ScopeRace: every thread runs its own sequence of `set_default` / guard drop / `get_default` calls, each call a few atomic
steps (thread-local replace, counter bump; counter drop, thread-local restore), the schedule interleaves the threads' steps
arbitrarily.  The counter is shared, everything else is thread-local. -/

open TM.ScopeRace in
/-- **C02.scoped_default_interleaved** — any threads, any programs, every interleaving of their atomic steps as the code
performs them: whenever a thread that is between calls asks for the default, it gets the collector of its OWN innermost live
scope, else the global default — whatever scopes other threads are opening or closing at that moment -/
theorem scoped_default_interleaved (g : Option Nat) (ths : List Nat) (hnd : ths.Nodup)
    (sched : List (Nat × TM.ScopeRace.Act)) (hs : ∀ ta ∈ sched, ta.1 ∈ ths) (t : Nat) (ht : t ∈ ths)
    (hidle : (TM.ScopeRace.run scopeOpenIsRmw g TM.ScopeRace.start sched).pc t = .idle) :
    (TM.ScopeRace.step scopeOpenIsRmw g (TM.ScopeRace.run scopeOpenIsRmw g TM.ScopeRace.start sched) (t, .get)).last t
      = some (TM.ScopeRace.expected g (TM.ScopeRace.run scopeOpenIsRmw g TM.ScopeRace.start sched) t) := by
  rw [scope_counter_code_facts.1] at hidle ⊢
  exact TM.ScopeRace.get_expected g ths _ (TM.ScopeRace.run_inv g ths hnd sched hs _ (TM.ScopeRace.inv_start ths)) t ht hidle

/-- **C02.other_threads_untouched** — a step of another thread changes neither a thread's live scopes nor its thread-local
default ("never affect another thread") -/
theorem other_threads_untouched (rmw : Bool) (g : Option Nat) (s : TM.ScopeRace.S) (u : Nat) (a : TM.ScopeRace.Act) (t : Nat) (h : t ≠ u) :
    (TM.ScopeRace.step rmw g s (u, a)).guards t = s.guards t ∧ (TM.ScopeRace.step rmw g s (u, a)).tl t = s.tl t ∧
    (TM.ScopeRace.step rmw g s (u, a)).pc t = s.pc t := by
  unfold TM.ScopeRace.step
  simp only
  cases s.pc u <;> cases a <;> simp [TM.ScopeRace.updF, h] <;> (try split) <;> (try cases s.guards u) <;> simp [TM.ScopeRace.updF, h]

/-- **C02.scoped_default_witness** — it depends on the counter bump being one atomic operation: with load-then-store, two threads
open a scope together (one bump is lost), the first closes its scope, and the second — still inside its own — is handed the
global default (here: none) -/
theorem scoped_default_witness :
    let s := TM.ScopeRace.run false none TM.ScopeRace.start
      [(0, .open 10), (1, .open 11), (0, .step), (1, .step), (0, .step), (1, .step), (0, .close), (0, .step), (1, .get)]
    s.last 1 = some none ∧ TM.ScopeRace.expected none s 1 = some 11 := by decide

example : (TM.ScopeRace.run scopeOpenIsRmw (some 7) TM.ScopeRace.start
    [(0, .open 10), (1, .open 11), (0, .step), (1, .step), (0, .close), (0, .step), (1, .get), (0, .get)]).last 1 = some (some 11) := by decide

end C02
