/-
C05, the deferred slot removal for EVERY history of drops — including handles that layers drop inside `on_close`, nested to any
depth, with any number of layers: whatever is released, when the call returns the thread's CLOSE_COUNT (and the span it counts
for) is what it was, and every span that was closed on the way has had its slot removed (`release_good`); so after any sequence of
handle drops made at top level no closed span is left in the registry (`closed_spans_are_gone`).
-/
import TracingModel.Props.C05N

namespace C05
open TM.CloseGuard

/-- what one call leaves behind, relative to the state it started in -/
structure Good (s s' : S) : Prop where
  count : s'.count = s.count
  closing : s'.closing = s.closing
  gone : ∀ x, x ∈ s'.closed → x ∈ s.closed ∨ x ∈ s'.cleared
  keep : ∀ x, x ∈ s.cleared → x ∈ s'.cleared

theorem Good.refl (s : S) : Good s s := ⟨rfl, rfl, fun _ h => Or.inl h, fun _ h => h⟩

theorem Good.trans {a b c : S} (h1 : Good a b) (h2 : Good b c) : Good a c :=
  ⟨h2.count.trans h1.count, h2.closing.trans h1.closing,
   fun x hx => (h2.gone x hx).elim (fun hb => (h1.gone x hb).elim Or.inl (fun hc => Or.inr (h2.keep x hc))) Or.inr,
   fun x hx => h2.keep x (h1.keep x hx)⟩

/-- the state between two frames of the close of `k` that started in `s`: `c` guards of `k` still counting -/
structure Mid (s : S) (k c : Nat) (t : S) : Prop where
  count : t.count = c
  closing : t.closing = k + 1
  gone : ∀ x, x ∈ t.closed → x = k ∨ x ∈ s.closed ∨ x ∈ t.cleared
  keep : ∀ x, x ∈ s.cleared → x ∈ t.cleared

theorem Mid.step {s : S} {k c : Nat} {t t' : S} (h : Mid s k c t) (g : Good t t') : Mid s k c t' :=
  ⟨g.count.trans h.count, g.closing.trans h.closing,
   fun x hx => (g.gone x hx).elim
     (fun hb => (h.gone x hb).elim Or.inl (fun h2 => h2.elim (fun h3 => Or.inr (Or.inl h3)) (fun h3 => Or.inr (Or.inr (g.keep x h3)))))
     (fun hc => Or.inr (Or.inr hc)),
   fun x hx => g.keep x (h.keep x hx)⟩

/-- what a layer drops inside `on_close` leaves the count alone -/
theorem runWills_good (wills : List Will) (rec : S → Nat → S) (hrec : ∀ s k, Good s (rec s k)) (k layer : Nat) (t : S) :
    Good t (runWills wills rec k layer t) := by
  unfold runWills
  generalize wills.filter (fun w => w.layer == layer && w.of == k) = l
  induction l generalizing t with
  | nil => exact Good.refl t
  | cons w ws ih =>
    simp only [List.foldl_cons]
    refine Good.trans ?_ (ih _)
    split
    · exact Good.trans (⟨rfl, rfl, fun _ h => Or.inl h, fun _ h => h⟩ : Good t { t with held := t.held.erase w.drops }) (hrec _ _)
    · exact Good.refl t

/-- a guard of `k` that is not the last one -/
theorem guardStep_mid (parent : Nat → Option Nat) (rec : S → Nat → S) (s : S) (k c : Nat) (saved : Nat × Nat) (t : S)
    (h : Mid s k c t) (hc : c ≠ 1) : Mid s k (c - 1) (guardStep true parent rec k saved t) := by
  unfold guardStep
  have hne : (t.count == 1) = false := by simp [h.count, hc]
  simp only [hne, Bool.false_eq_true, if_false]
  exact ⟨by simp [h.count], h.closing, h.gone, h.keep⟩

/-- the last guard of `k`: the interrupted count comes back, the slot goes, the parent's reference is released -/
theorem guardStep_last (parent : Nat → Option Nat) (rec : S → Nat → S) (hrec : ∀ s k, Good s (rec s k)) (s : S) (k : Nat) (t : S)
    (h : Mid s k 1 t) : Good s (guardStep true parent rec k (s.closing, s.count) t) := by
  unfold guardStep
  have he : (t.count == 1) = true := by simp [h.count]
  simp only [he, if_true]
  have hu : Good s { t with count := s.count, closing := s.closing, cleared := k :: t.cleared } :=
    ⟨rfl, rfl,
     fun x hx => (h.gone x hx).elim (fun e => Or.inr (by simp [e]))
       (fun h2 => h2.elim Or.inl (fun h3 => Or.inr (List.mem_cons_of_mem _ h3))),
     fun x hx => List.mem_cons_of_mem _ (h.keep x hx)⟩
  cases hp : parent k with
  | none => exact hu
  | some p => exact Good.trans hu (hrec _ p)

theorem layerStep_mid (parent : Nat → Option Nat) (wills : List Will) (rec : S → Nat → S) (hrec : ∀ s k, Good s (rec s k))
    (s : S) (k c : Nat) (saved : Nat × Nat) (t : S) (i : Nat) (h : Mid s k c t) (hc : c ≠ 1) :
    Mid s k (c - 1) (layerStep true parent wills rec k saved t i) := by
  unfold layerStep
  have h0 : Mid s k c { t with log := t.log ++ [(i + 1, k, !t.cleared.contains k)] } := ⟨h.count, h.closing, h.gone, h.keep⟩
  exact guardStep_mid parent rec s k c saved _ (h0.step (runWills_good wills rec hrec k (i + 1) _)) hc

theorem layerStep_last (parent : Nat → Option Nat) (wills : List Will) (rec : S → Nat → S) (hrec : ∀ s k, Good s (rec s k))
    (s : S) (k : Nat) (t : S) (i : Nat) (h : Mid s k 1 t) :
    Good s (layerStep true parent wills rec k (s.closing, s.count) t i) := by
  unfold layerStep
  have h0 : Mid s k 1 { t with log := t.log ++ [(i + 1, k, !t.cleared.contains k)] } := ⟨h.count, h.closing, h.gone, h.keep⟩
  exact guardStep_last parent rec hrec s k _ (h0.step (runWills_good wills rec hrec k (i + 1) _))

/-- all frames but the last -/
theorem loop_mid (parent : Nat → Option Nat) (wills : List Will) (rec : S → Nat → S) (hrec : ∀ s k, Good s (rec s k))
    (s : S) (k : Nat) (saved : Nat × Nat) (c : Nat) (j : Nat) (hj : j < c) (t : S) (h : Mid s k c t) :
    Mid s k (c - j) ((List.range j).foldl (layerStep true parent wills rec k saved) t) := by
  induction j with
  | zero => simpa using h
  | succ j ih =>
    rw [List.range_succ, List.foldl_append]
    simp only [List.foldl_cons, List.foldl_nil]
    have := layerStep_mid parent wills rec hrec s k (c - j) saved _ j (ih (by omega)) (by omega)
    rw [show c - (j + 1) = c - j - 1 by omega]
    exact this

/-- **C05.release_good** — for every number of layers n ≥ 1, every set of handles the layers drop inside `on_close`, every state
and every span: when a release returns, CLOSE_COUNT and the span it counts for are what they were, every slot removed before is
still removed, and every span that is closed now either was closed before or has had its slot removed. -/
theorem release_good (n : Nat) (hn : 1 ≤ n) (parent : Nat → Option Nat) (wills : List Will) (fuel : Nat) :
    ∀ (s : S) (k : Nat), Good s (release true n parent wills fuel s k) := by
  induction fuel with
  | zero => intro s k; exact Good.refl s
  | succ fuel ih =>
    intro s k
    unfold release
    simp only
    split
    · exact ⟨rfl, rfl, fun _ h => Or.inl h, fun _ h => h⟩
    · obtain ⟨j, rfl⟩ : ∃ j, n = j + 1 := ⟨n - 1, by omega⟩
      simp only [if_true]
      rw [List.range_succ, List.foldl_append]
      simp only [List.foldl_cons, List.foldl_nil]
      have hstart : Mid s k (j + 1) { s with refs := upd s.refs k (s.refs k - 1), closing := k + 1, count := j + 1, closed := k :: s.closed } :=
        ⟨rfl, rfl, fun x hx => by
            rcases List.mem_cons.mp hx with e | e
            · exact Or.inl e
            · exact Or.inr (Or.inl e),
         fun _ h => h⟩
      have hm := loop_mid parent wills (release true (j + 1) parent wills fuel) ih s k (s.closing, s.count) (j + 1) j (by omega) _ hstart
      rw [show j + 1 - j = 1 by omega] at hm
      exact layerStep_last parent wills (release true (j + 1) parent wills fuel) ih s k _ j hm

/-- the user's drops, one after the other, at top level -/
def drops (n : Nat) (parent : Nat → Option Nat) (wills : List Will) (fuel : Nat) (s : S) (ks : List Nat) : S :=
  ks.foldl (dropHandle true n parent wills fuel) s

theorem dropHandle_good (n : Nat) (hn : 1 ≤ n) (parent : Nat → Option Nat) (wills : List Will) (fuel : Nat) (s : S) (k : Nat) :
    Good s (dropHandle true n parent wills fuel s k) := by
  unfold dropHandle
  split
  · exact Good.trans (⟨rfl, rfl, fun _ h => Or.inl h, fun _ h => h⟩ : Good s { s with held := s.held.erase k }) (release_good n hn parent wills fuel _ k)
  · exact Good.refl s

/-- **C05.closed_spans_are_gone** — "afterwards the span is gone", for every forest of spans, every n ≥ 1, every set of handles
dropped by layers inside `on_close` and every order of the user's drops: once the drops have returned, every span that was
closed has had its slot removed, and no guard is left counting. -/
theorem closed_spans_are_gone (n : Nat) (hn : 1 ≤ n) (m : Nat) (parent : Nat → Option Nat) (wills : List Will) (fuel : Nat) (ks : List Nat) :
    let s' := drops n parent wills fuel (start m parent) ks
    s'.count = 0 ∧ ∀ x, x ∈ s'.closed → x ∈ s'.cleared := by
  have key : ∀ (ks : List Nat) (s : S), Good s (drops n parent wills fuel s ks) := by
    intro ks
    induction ks with
    | nil => intro s; exact Good.refl s
    | cons k ks ih =>
      intro s
      exact Good.trans (dropHandle_good n hn parent wills fuel s k) (ih _)
  have g := key ks (start m parent)
  refine ⟨g.count, fun x hx => ?_⟩
  rcases g.gone x hx with h | h
  · cases h
  · exact h

end C05
