/-
C19 — "Levels and level filters form one consistent total order; text round-trips"

  Verbosity levels and level filters are totally ordered OFF < ERROR < WARN < INFO < DEBUG <
  TRACE; every comparison operator between any two of them (level with level, level with
  filter, filter with filter) agrees with that order and with every other operator, 'level
  enabled by filter' means level <= filter, printing then parsing any of them gives it back
  (names in any letter case and the documented digits are accepted, anything else is
  rejected), and the globally published maximum level reads back as exactly the value that
  was set.

Model: Gen/Levels.lean (regenerated from metadata.rs and tracing-log/src/lib.rs on every
run) + Core/Levels.lean.  Specification: Spec/LevelOrder.lean (ranks, accepted language).
-/
import TracingModel.Core.Levels
import TracingModel.Spec.LevelOrder

namespace C19
open TM.Gen.Levels TM.Levels
open TM (Str ofString)
open TM.Spec.LevelOrder (rank frank ofRank fOfRank name fname numeral value caseVariant acceptLevel acceptFilter levelsInOrder filtersInOrder lower)

/-! ### finite part: every operator on every pair equals the rank order -/

/-- **C19.all_ops_agree (level × level)** -/
theorem ops_LL (a b : Lvl) :
    LL_lt a b = decide (rank a < rank b) ∧ LL_le a b = decide (rank a ≤ rank b) ∧
    LL_gt a b = decide (rank a > rank b) ∧ LL_ge a b = decide (rank a ≥ rank b) ∧
    LL_eq a b = decide (rank a = rank b) ∧
    LL_cmp a b = compare (rank a) (rank b) ∧ LL_partial_cmp a b = some (compare (rank a) (rank b)) ∧
    rank (LL_max a b) = max (rank a) (rank b) ∧ rank (LL_min a b) = min (rank a) (rank b) := by
  cases a <;> cases b <;> decide

/-- **C19.all_ops_agree (level × filter)** -/
theorem ops_LF (a : Lvl) (b : Flt) :
    LF_lt a b = decide (rank a < frank b) ∧ LF_le a b = decide (rank a ≤ frank b) ∧
    LF_gt a b = decide (rank a > frank b) ∧ LF_ge a b = decide (rank a ≥ frank b) ∧
    LF_eq a b = decide (rank a = frank b) ∧
    LF_partial_cmp a b = some (compare (rank a) (frank b)) := by
  cases a <;> rcases b with _ | b <;> try cases b
  all_goals decide

/-- **C19.all_ops_agree (filter × level)** -/
theorem ops_FL (a : Flt) (b : Lvl) :
    FL_lt a b = decide (frank a < rank b) ∧ FL_le a b = decide (frank a ≤ rank b) ∧
    FL_gt a b = decide (frank a > rank b) ∧ FL_ge a b = decide (frank a ≥ rank b) ∧
    FL_eq a b = decide (frank a = rank b) ∧
    FL_partial_cmp a b = some (compare (frank a) (rank b)) := by
  cases b <;> rcases a with _ | a <;> try cases a
  all_goals decide

/-- **C19.all_ops_agree (filter × filter)** -/
theorem ops_FF (a b : Flt) :
    FF_lt a b = decide (frank a < frank b) ∧ FF_le a b = decide (frank a ≤ frank b) ∧
    FF_gt a b = decide (frank a > frank b) ∧ FF_ge a b = decide (frank a ≥ frank b) ∧
    FF_eq a b = decide (frank a = frank b) ∧
    FF_cmp a b = compare (frank a) (frank b) ∧ FF_partial_cmp a b = some (compare (frank a) (frank b)) ∧
    frank (FF_max a b) = max (frank a) (frank b) ∧ frank (FF_min a b) = min (frank a) (frank b) := by
  rcases a with _ | a <;> rcases b with _ | b <;> try cases a
  all_goals (try cases b)
  all_goals decide

/-- ranks are injective: the order is total and antisymmetric on the values themselves -/
theorem rank_injective (a b : Lvl) (h : rank a = rank b) : a = b := by
  cases a <;> cases b <;> first | rfl | (exact absurd h (by decide))

theorem frank_injective (a b : Flt) (h : frank a = frank b) : a = b := by
  rcases a with _ | a <;> rcases b with _ | b <;> try cases a
  all_goals (try cases b)
  all_goals first | rfl | (exact absurd h (by decide))

/-- **C19.enabled_is_le** — "level enabled by filter" (`level <= filter`) is `≤` on ranks, and
OFF (rank 0) enables nothing -/
theorem enabled_is_le (l : Lvl) (f : Flt) : LF_le l f = decide (rank l ≤ frank f) := (ops_LF l f).2.1

theorem off_enables_nothing (l : Lvl) : LF_le l none = false := by cases l <;> decide

/-- **C19.conversions_roundtrip** — `From<Level>`/`into_level` are `some`/identity in the model
(`LevelFilter(Option<Level>)`); the usize encodings of the two types agree and are injective -/
theorem repr_agree (l : Lvl) : filterRepr (some l) = levelRepr l := rfl

theorem repr_injective (a b : Flt) (h : filterRepr a = filterRepr b) : a = b := by
  rcases a with _ | a <;> rcases b with _ | b <;> try cases a
  all_goals (try cases b)
  all_goals first | rfl | (exact absurd h (by decide))

/-- **C19.max_level_readback** — `current()` after `set_max(f)` is exactly `f` (never the
`unreachable!` arm) -/
theorem max_level_readback (f : Flt) : currentAfterSet f = some f := by
  rcases f with _ | l <;> try cases l
  all_goals decide

/-- **C19.log_bijection** — the `log` ↔ `tracing` conversions are mutually inverse and keep the
rank (so they preserve the order) -/
theorem log_bijection_level (l : Lvl) :
    levelAsTrace (levelAsLog l) = l ∧ levelAsLog (levelAsTrace l) = l ∧ rank (levelAsLog l) = rank l := by
  cases l <;> decide

theorem log_bijection_filter (f : Flt) :
    filterAsTrace (filterAsLog f) = f ∧ filterAsLog (filterAsTrace f) = f ∧ frank (filterAsLog f) = frank f := by
  rcases f with _ | l <;> try cases l
  all_goals decide

/-! ### text: display, parse, accepted language (unbounded: every string) -/

/-- **C19.parse_display** -/
theorem parse_display_level (l : Lvl) :
    parseLevel (ofString (levelDisplay l)) = some l ∧ levelAsStr l = levelDisplay l := by
  cases l <;> decide

theorem parse_display_filter (f : Flt) : parseFilter (ofString (filterDisplay f)) = some f := by
  rcases f with _ | l <;> try cases l
  all_goals decide

theorem digits_roundtrip_level (l : Lvl) : parseLevel (ofString (toString (rank l))) = some l := by
  cases l <;> decide

theorem digits_roundtrip_filter (f : Flt) : parseFilter (ofString (toString (frank f))) = some f := by
  rcases f with _ | l <;> try cases l
  all_goals decide

/-! helper lemmas for the accepted-language theorems -/

private def V (cs : TM.Str) (acc : Nat) : Nat := cs.foldl (fun a c => a * 10 + (c - 48)) acc

private theorem V_ge (cs : TM.Str) (acc : Nat) : acc ≤ V cs acc := by
  induction cs generalizing acc with
  | nil => exact Nat.le_refl _
  | cons c cs ih =>
    simp only [V, List.foldl_cons]
    have := ih (acc * 10 + (c - 48))
    simp only [V] at this
    omega

private theorem parseDigits_spec (cs : TM.Str) (acc : Nat) (hacc : acc < USIZE_LIMIT) :
    parseDigits cs acc =
      if cs.all TM.Levels.isDigit = true ∧ V cs acc < USIZE_LIMIT then some (V cs acc) else none := by
  induction cs generalizing acc with
  | nil => simp [parseDigits, V, hacc]
  | cons c cs ih =>
    simp only [parseDigits, digitVal]
    by_cases hd : TM.Levels.isDigit c = true
    · simp only [hd, if_true]
      by_cases hv : acc * 10 + (c - 48) < USIZE_LIMIT
      · simp only [hv, if_true]
        rw [ih _ hv]
        simp [V, hd, List.all_cons]
      · simp only [hv, if_false]
        have hge := V_ge cs (acc * 10 + (c - 48))
        have : ¬ V (c :: cs) acc < USIZE_LIMIT := by
          simp only [V, List.foldl_cons]; simp only [V] at hge; omega
        simp [this]
    · simp [hd, List.all_cons]

/-- on digit strings the checked parser computes the unbounded value, or fails exactly when
the value does not fit 64 bits -/
private theorem parseDigits_zero (cs : TM.Str) :
    parseDigits cs 0 = if cs.all TM.Levels.isDigit = true ∧ value cs < USIZE_LIMIT then some (value cs) else none := by
  rw [parseDigits_spec cs 0 (by decide)]
  rfl

private theorem isDigit_same (c : Nat) : TM.Levels.isDigit c = TM.Spec.LevelOrder.isDigit c := rfl

private theorem all_digit_iff (s : TM.Str) :
    (s.all TM.Levels.isDigit) = (s.all TM.Spec.LevelOrder.isDigit) := rfl

private theorem numeral_core (ds : TM.Str) (h : ds ≠ []) :
    parseDigits ds 0 =
      (if ds.isEmpty || !ds.all TM.Spec.LevelOrder.isDigit then none else some (value ds)).bind
        (fun v => if v < USIZE_LIMIT then some v else none) := by
  rw [parseDigits_zero ds]
  have : ds.isEmpty = false := by cases ds <;> simp_all
  simp only [this, Bool.false_or, all_digit_iff]
  by_cases ha : ds.all TM.Spec.LevelOrder.isDigit = true
  · simp [ha]
  · simp [ha]

private theorem parseUsize_spec (s : TM.Str) :
    parseUsize s = (numeral s).bind (fun v => if v < USIZE_LIMIT then some v else none) := by
  cases s with
  | nil => simp [parseUsize, numeral]
  | cons c rest =>
    by_cases hc : c = 43
    · subst hc
      by_cases hr : rest = []
      · subst hr; simp [parseUsize, numeral]
      · have : rest.isEmpty = false := by cases rest <;> simp_all
        simp only [parseUsize, numeral, this, Bool.false_eq_true, if_false]
        have := numeral_core rest hr
        simpa [hr] using this
    · have h1 : parseUsize (c :: rest) = parseDigits (c :: rest) 0 := by
        unfold parseUsize
        split
        · rename_i h; cases h
        · rename_i r h; cases h; exact absurd rfl hc
        · rfl
      have h2 : numeral (c :: rest) =
          (if (c :: rest).isEmpty || !(c :: rest).all TM.Spec.LevelOrder.isDigit then none else some (value (c :: rest))) := by
        unfold numeral
        split
        · rename_i r h; cases h; exact absurd rfl hc
        · rfl
      rw [h1, h2]
      exact numeral_core (c :: rest) (by simp)

private theorem levelOfDigit_eq (n : Nat) : levelOfDigit n = ofRank n := by
  match n with
  | 0 | 1 | 2 | 3 | 4 | 5 => rfl
  | n + 6 => rfl

private theorem filterOfDigit_eq (n : Nat) : filterOfDigit n = fOfRank n := by
  match n with
  | 0 | 1 | 2 | 3 | 4 | 5 => rfl
  | n + 6 => rfl

private theorem ofRank_big (v : Nat) (h : ¬ v < USIZE_LIMIT) : ofRank v = none ∧ fOfRank v = none := by
  have : 6 ≤ v := by simp [USIZE_LIMIT] at h; omega
  obtain ⟨k, rfl⟩ : ∃ k, v = k + 6 := ⟨v - 6, by omega⟩
  exact ⟨rfl, rfl⟩

private theorem numeric_level (s : TM.Str) :
    (parseUsize s).bind levelOfDigit = (numeral s).bind ofRank := by
  rw [parseUsize_spec]
  cases numeral s with
  | none => rfl
  | some v =>
    by_cases h : v < USIZE_LIMIT
    · simp [h, levelOfDigit_eq]
    · simp [h, (ofRank_big v h).1]

private theorem numeric_filter (s : TM.Str) :
    (parseUsize s).bind filterOfDigit = (numeral s).bind fOfRank := by
  rw [parseUsize_spec]
  cases numeral s with
  | none => rfl
  | some v =>
    by_cases h : v < USIZE_LIMIT
    · simp [h, filterOfDigit_eq]
    · simp [h, (ofRank_big v h).2]

private theorem lower_same (c : Nat) : asciiLower c = lower c := rfl

/-- comparing against an all-lowercase name: `eq_ignore_ascii_case` is "is a case variant" -/
private theorem eqIgnore_lower (s n : TM.Str) (hn : ∀ c ∈ n, lower c = c) :
    eqIgnoreAsciiCase s n = (s.map lower == n) := by
  induction s generalizing n with
  | nil => cases n <;> simp [eqIgnoreAsciiCase]
  | cons a s ih =>
    cases n with
    | nil => simp [eqIgnoreAsciiCase]
    | cons b n =>
      have hb : lower b = b := hn b (by simp)
      have := ih n (fun c hc => hn c (by simp [hc]))
      simp only [eqIgnoreAsciiCase, lower_same, hb, this, List.map_cons]
      by_cases h1 : lower a = b <;> by_cases h2 : List.map lower s = n <;> simp [h1, h2]

private theorem eqIgnore_name (s : TM.Str) (n : String) (hn : ∀ c ∈ ofString n, lower c = c) :
    eqIgnoreAsciiCase s (ofString n) = caseVariant s n := eqIgnore_lower s _ hn

private theorem firstName_level (s : TM.Str) :
    firstName s levelNames = levelsInOrder.find? (fun l => caseVariant s (name l)) := by
  simp only [levelNames, firstName, levelsInOrder, List.find?, name,
    eqIgnore_name s "error" (by decide), eqIgnore_name s "warn" (by decide), eqIgnore_name s "info" (by decide),
    eqIgnore_name s "debug" (by decide), eqIgnore_name s "trace" (by decide)]
  generalize caseVariant s "error" = b1
  generalize caseVariant s "warn" = b2
  generalize caseVariant s "info" = b3
  generalize caseVariant s "debug" = b4
  generalize caseVariant s "trace" = b5
  cases b1 <;> cases b2 <;> cases b3 <;> cases b4 <;> cases b5 <;> rfl

private theorem firstName_filter (s : TM.Str) :
    firstName s filterNames = filtersInOrder.find? (fun f => caseVariant s (fname f)) := by
  simp only [filterNames, firstName, filtersInOrder, List.find?, fname, name,
    eqIgnore_name s "error" (by decide), eqIgnore_name s "warn" (by decide), eqIgnore_name s "info" (by decide),
    eqIgnore_name s "debug" (by decide), eqIgnore_name s "trace" (by decide), eqIgnore_name s "off" (by decide)]
  generalize caseVariant s "error" = b1
  generalize caseVariant s "warn" = b2
  generalize caseVariant s "info" = b3
  generalize caseVariant s "debug" = b4
  generalize caseVariant s "trace" = b5
  generalize caseVariant s "off" = b6
  cases b1 <;> cases b2 <;> cases b3 <;> cases b4 <;> cases b5 <;> cases b6 <;> rfl

/-- a numeral is never a name -/
private theorem numeral_not_name (s : TM.Str) (v : Nat) (h : numeral s = some v) (f : Flt) :
    caseVariant s (fname f) = false := by
  cases s with
  | nil => simp [numeral] at h
  | cons c rest =>
    have hc : c = 43 ∨ TM.Spec.LevelOrder.isDigit c = true := by
      by_cases h43 : c = 43
      · exact Or.inl h43
      · right
        unfold numeral at h
        split at h
        · rename_i r hh; cases hh; exact absurd rfl h43
        · simp only [List.isEmpty_cons, Bool.false_or, List.all_cons] at h
          by_cases hd : TM.Spec.LevelOrder.isDigit c = true
          · exact hd
          · simp [hd] at h
    have hl : lower c = c ∧ c ≤ 57 := by
      rcases hc with rfl | hd
      · decide
      · simp only [TM.Spec.LevelOrder.isDigit, Bool.and_eq_true, decide_eq_true_eq] at hd
        simp only [lower]
        have : ¬ (65 ≤ c) := by omega
        simp [this]; omega
    have e : ∀ (n : String) (h : Nat), (ofString n).head? = some h → 97 ≤ h → caseVariant (c :: rest) n = false := by
      intro n h hn hh
      simp only [caseVariant, List.map_cons, hl.1]
      cases hN : ofString n with
      | nil => simp
      | cons a t =>
        rw [hN] at hn
        simp only [List.head?_cons, Option.some.injEq] at hn
        simp only [beq_eq_false_iff_ne, ne_eq, List.cons.injEq, not_and]
        intro hch; omega
    rcases f with _ | l <;> try cases l
    · exact e "off" 111 (by decide) (by decide)
    · exact e "trace" 116 (by decide) (by decide)
    · exact e "debug" 100 (by decide) (by decide)
    · exact e "info" 105 (by decide) (by decide)
    · exact e "warn" 119 (by decide) (by decide)
    · exact e "error" 101 (by decide) (by decide)

/-- **C19.accepted_language (Level)** — for EVERY string, `Level::from_str` accepts it iff it is
in the documented language (a decimal numeral of value 1–5, or a level name in any letter
case) and then yields the level that text denotes; every other string is rejected.  In
particular a numeral too large for `usize` is rejected, not wrapped. -/
theorem accepted_language_level (s : TM.Str) : parseLevel s = acceptLevel s := by
  unfold parseLevel acceptLevel
  rw [numeric_level, firstName_level]
  cases hn : numeral s with
  | none => rfl
  | some v =>
    simp only [Option.bind_some]
    cases hv : ofRank v with
    | some l => rfl
    | none =>
      simp only []
      apply List.find?_eq_none.mpr
      intro l _
      have := numeral_not_name s v hn (some l)
      simpa [fname] using this

/-- **C19.accepted_language (LevelFilter), partial** — for every NON-EMPTY string,
`LevelFilter::from_str` accepts exactly the documented language (numeral 0–5, a level name or
`off` in any case).  The excluded input is the empty string: see `f16_witness`. -/
theorem accepted_language_filter_partial (s : TM.Str) (hne : s ≠ []) : parseFilter s = acceptFilter s := by
  unfold parseFilter acceptFilter
  rw [numeric_filter, firstName_filter]
  have hex : firstExact s filterExact = none := by
    cases s with
    | nil => exact absurd rfl hne
    | cons c r => simp [filterExact, firstExact, ofString]
  rw [hex]
  cases hn : numeral s with
  | none => rfl
  | some v =>
    simp only [Option.bind_some]
    cases hv : fOfRank v with
    | some l => rfl
    | none =>
      simp only []
      apply List.find?_eq_none.mpr
      intro f _
      have := numeral_not_name s v hn f
      simpa using this

/-- **C19.f16_witness** — the full statement is false at exactly one input: the empty string is
not in the documented language, yet `"".parse::<LevelFilter>()` is `Ok(ERROR)`. -/
theorem f16_witness : parseFilter [] = some (some .error) ∧ acceptFilter [] = none := by decide

/-- every letter-case pattern of every name is accepted (corollary, stated for the reader) -/
theorem any_case_level (s : TM.Str) (l : Lvl) (h : caseVariant s (name l) = true) (hn : numeral s = none) :
    ∃ l', parseLevel s = some l' := by
  rw [accepted_language_level]
  simp only [acceptLevel, hn]
  have : (levelsInOrder.find? fun l => caseVariant s (name l)).isSome := by
    rw [List.find?_isSome]
    exact ⟨l, by cases l <;> simp [levelsInOrder], h⟩
  exact Option.isSome_iff_exists.mp this

example : parseLevel (ofString "wArN") = some .warn := by decide
example : parseLevel (ofString "+3") = some .info := by decide
example : parseLevel (ofString "18446744073709551617") = none := by decide
example : parseLevel (ofString "inf0") = none := by decide
example : parseFilter (ofString "OFF") = some none := by decide

end C19
