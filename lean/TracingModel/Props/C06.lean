/-
C06 — "Current span, parent and scope mirror each thread's enter/exit history"

  On each thread the registry's notion of the current span is the most recently entered span
  that has not been exited on that thread, independent of every other thread; a span or event
  created without an explicit parent gets that span as parent, an explicit parent or explicit
  root overrides it; and walking a span's scope yields exactly its chain of ancestors from leaf
  to root (the reverse from root), all of whose data stays readable for as long as any
  descendant or captured span trace is alive.

Model: Core/Registry.lean (SpanStack of stack.rs; new_span / enter / exit of sharded.rs; Scope).
-/
import TracingModel.Core.Registry

namespace C06
open TM.Registry

/-- per-thread enter/exit history -/
inductive SOp
  | enter (id : Sid)
  | exit (id : Sid)
deriving Repr

def applyStack (st : List Ctx) : SOp → List Ctx
  | .enter id => (push st id).1
  | .exit id => (pop st id).1

/-- specification: the spans entered and not yet exited on the thread, in order of entry; an exit
removes that span (wherever it sits: exits may come in any order) -/
def eraseLast (id : Sid) : List Sid → List Sid
  | [] => []
  | x :: rest => if id ∈ rest then x :: eraseLast id rest else if x = id then rest else x :: rest

def applySpec (l : List Sid) : SOp → List Sid
  | .enter id => l ++ [id]
  | .exit id => eraseLast id l

/-- the property's exclusion: no span is entered while already entered on the same thread -/
def NoReentry : List Sid → List SOp → Prop
  | _, [] => True
  | l, .enter id :: ops => id ∉ l ∧ NoReentry (l ++ [id]) ops
  | l, .exit id :: ops => NoReentry (eraseLast id l) ops

def mk (id : Sid) : Ctx := ⟨id, false⟩

private theorem any_map_mk (l : List Sid) (id : Sid) : (l.map mk).any (fun c => c.id == id) = decide (id ∈ l) := by
  induction l with
  | nil => simp
  | cons x xs ih =>
    simp only [List.map_cons, List.any_cons, ih, mk, List.mem_cons]
    by_cases h : x = id
    · subst h; simp
    · have : ¬ id = x := fun e => h e.symm
      simp [h, this]

private theorem push_nodup (l : List Sid) (id : Sid) (h : id ∉ l) :
    push (l.map mk) id = ((l ++ [id]).map mk, true) := by
  simp only [push, any_map_mk, h, decide_false, Bool.not_false, List.map_append, List.map_cons, List.map_nil, mk]

private theorem removeLast_map (l : List Sid) (id : Sid) :
    removeLast id (l.map mk) = if id ∈ l then some (mk id, (eraseLast id l).map mk) else none := by
  induction l with
  | nil => simp [removeLast]
  | cons x xs ih =>
    simp only [List.map_cons, removeLast, ih, eraseLast, List.mem_cons]
    by_cases hx : id ∈ xs
    · simp [hx]
    · simp only [hx, if_false]
      by_cases e : x = id
      · subst e; simp [mk]
      · have : ¬ id = x := fun h => e h.symm
        simp [mk, e, this]

private theorem pop_map (l : List Sid) (id : Sid) :
    (pop (l.map mk) id).1 = (eraseLast id l).map mk := by
  simp only [pop, removeLast_map]
  by_cases h : id ∈ l
  · simp [h]
  · have : eraseLast id l = l := by
      induction l with
      | nil => rfl
      | cons x xs ih =>
        simp only [List.mem_cons, not_or] at h
        have hne : ¬ x = id := fun e => h.1 e.symm
        simp [eraseLast, h.2, hne]
    simp [h, this]

private theorem current_map (l : List Sid) : current (l.map mk) = l.getLast? := by
  simp only [current]
  have : (l.map mk).reverse.filter (fun c => !c.duplicate) = (l.map mk).reverse := by
    apply List.filter_eq_self.mpr
    intro c hc
    simp only [List.mem_reverse, List.mem_map] at hc
    obtain ⟨a, _, rfl⟩ := hc
    rfl
  rw [this]
  simp only [List.head?_reverse, List.getLast?_map, Option.map_map]
  cases l.getLast? <;> rfl

/-- the stack the code keeps IS the specification's list (all entries non-duplicate) -/
theorem stack_is_spec (ops : List SOp) (l : List Sid) (h : NoReentry l ops) :
    ops.foldl applyStack (l.map mk) = (ops.foldl applySpec l).map mk := by
  induction ops generalizing l with
  | nil => rfl
  | cons op ops ih =>
    cases op with
    | enter id =>
      simp only [NoReentry] at h
      simp only [List.foldl_cons, applyStack, applySpec, push_nodup l id h.1]
      exact ih _ h.2
    | exit id =>
      simp only [NoReentry] at h
      simp only [List.foldl_cons, applyStack, applySpec, pop_map]
      exact ih _ h

/-- **C06.current_is_last_unexited** — for EVERY per-thread sequence of enters and exits, in any
order (out-of-order exits included), without same-thread re-entry: after every prefix the
registry's current span is the most recently entered span that has not been exited. -/
theorem current_is_last_unexited (ops : List SOp) (h : NoReentry [] ops) :
    current (ops.foldl applyStack []) = (ops.foldl applySpec []).getLast? := by
  have := stack_is_spec ops [] h
  simp only [List.map_nil] at this
  rw [this, current_map]

/-- exiting a span that is entered removes exactly it: everything else keeps its relative order -/
theorem exit_removes_only_it (l : List Sid) (id x : Sid) (hx : x ≠ id) : x ∈ eraseLast id l ↔ x ∈ l := by
  induction l with
  | nil => simp [eraseLast]
  | cons y ys ih =>
    simp only [eraseLast]
    by_cases h1 : id ∈ ys
    · simp [h1, ih]
    · simp only [h1, if_false]
      by_cases h2 : y = id
      · subst h2; simp [hx]
      · simp [h2]

/-- **C06.thread_independent** — entering or exiting on thread `t` leaves every other thread's
stack, hence its current span, unchanged (the same span may be entered on several threads) -/
theorem thread_independent (s : RState) (t t' : Tid) (id : Sid) (h : t' ≠ t) :
    (enter s t id).stacks t' = s.stacks t' ∧ (TM.Registry.exit s t id).stacks t' = s.stacks t' := by
  constructor
  · simp only [enter]
    split
    · simp only [cloneRef]; split <;> (try split) <;> simp [setSlot, update, h]
    · simp [update, h]
  · simp only [TM.Registry.exit]
    split
    · simp only [closeViaDefault]
      have key : ∀ fuel (s : RState) t id, (tryClose fuel s t id).stacks = s.stacks := by
        intro fuel
        induction fuel with
        | zero => intro s t id; rfl
        | succ n ih =>
          intro s t id
          simp only [tryClose]
          split
          · rfl
          · split
            · rfl
            · split
              · simp [setSlot]
              · split
                · simp [setSlot]
                · split
                  · rw [ih]; simp [setSlot]
                  · simp [setSlot]
      split
      · rw [key]; simp [update, h]
      · simp [update, h]
    · simp [update, h]

theorem refParent_length (s : RState) (p : Option Sid) : (refParent s p).slots.length = s.slots.length := by
  cases p with
  | none => rfl
  | some p => simp only [refParent, cloneRef]; split <;> (try split) <;> simp [setSlot]

/-- **C06.parent_resolution** — a new span's stored parent is: nothing for an explicit root, the
given span for an explicit parent, and the thread's current span otherwise -/
theorem parent_resolution (s : RState) (t : Tid) (k : ParentKind) :
    ((newSpan s t k).slots[s.slots.length]?).map (·.parent) =
      some (match k with
            | .root => none
            | .contextual => current (s.stacks t)
            | .explicit p => some p) := by
  simp only [newSpan]
  rw [← refParent_length s (resolveParent s t k)]
  simp only [List.getElem?_concat_length, Option.map_some]
  cases k <;> rfl

/-- **C06.scope_is_ancestor_chain** — walking a scope yields the span itself followed by the scope
of its stored parent: leaf to root along the parent pointers, nothing else -/
theorem scope_is_ancestor_chain (fuel : Nat) (s : RState) (id : Sid) (sl : Slot)
    (h : s.slots[id]? = some sl) (hp : sl.present = true) :
    scope (fuel + 1) s id = id :: (match sl.parent with | some p => scope fuel s p | none => []) := by
  rw [scope]; simp only [h, hp, if_true]
  cases sl.parent <;> rfl

/-- non-vacuity: three spans, the oldest exited first (two positions below the top) -/
example : current ([SOp.enter 0, .enter 1, .enter 2, .exit 0].foldl applyStack []) = some 2 := by decide
example : NoReentry [] [SOp.enter 0, .enter 1, .enter 2, .exit 0, .enter 0] := by simp [NoReentry, eraseLast]

end C06
