/-
C05, the last release under real interleavings — "reported closed exactly once … never twice" when the last references of a
span are released on several threads at the same time.

Model: Core/AtomicCount.lean (one step = one atomic operation on the span's reference count; any number of threads, any
schedule); whether `try_close` decides on the value returned by its own fetch_sub is extracted from sharded.rs on every run.
-/
import TracingModel.Props.C05R
import TracingModel.Lemmas.AtomicCount

namespace C05
open TM.AtomicCount TM.Gen.AtomicCounts

/-- **C05.close_decision_code_fact** — Registry::try_close: `let refs = ref_count.fetch_sub(1); if refs > 1 { return false }`,
no other load or store of the count (re-extracted from sharded.rs on every run) -/
theorem close_decision_code_fact : closeDecidedByFetchSub = true := by decide

/-- **C05.one_closer_interleaved** — the `n ≥ 1` references of a span released by `n` threads, every interleaving of the
count operations as the code performs them: never two threads conclude "I released the last one" (so the span is never
reported closed twice), once the count is 0 exactly one has (it is reported), and the count is what has not been released -/
theorem one_closer_interleaved (ths : List Nat) (hnd : ths.Nodup) (hne : ths ≠ []) (sched : List Nat) (hs : ∀ t ∈ sched, t ∈ ths) :
    let s := run true closeDecidedByFetchSub (fun _ => .dec) (start ths.length) sched
    closers s ths ≤ 1 ∧ (s.c = 0 → closers s ths = 1) ∧ s.c + finished s ths = ths.length := by
  rw [close_decision_code_fact]
  exact one_closer ths hnd hne (fun _ => .dec) (fun _ => rfl) sched hs

/-- **C05.two_closers_witness** — it depends on the decision being taken on the fetch_sub's own result: with a separate load
after the decrement, two threads releasing the last two references both conclude that they were the last -/
theorem two_closers_witness :
    closers (run true false (fun _ => .dec) (start 2) [0, 1, 0, 1]) [0, 1] = 2 := by decide

example : closers (run true closeDecidedByFetchSub (fun _ => .dec) (start 3) [2, 0, 1]) [0, 1, 2] = 1 := by decide

end C05
