/-
C05, the last release under real interleavings — "reported closed exactly once … never twice" when the last references of a
span are released on several threads at the same time.

Model: Core/AtomicCount.lean (one step = one atomic operation on the span's reference count; any number of threads, any
schedule); whether `try_close` decides on the value returned by its own fetch_sub is extracted from sharded.rs on every run.
-/
import TracingModel.Props.C05R
import TracingModel.Props.C05M
import TracingModel.Lemmas.AtomicCount
import TracingModel.Lemmas.HandleRace

namespace C05
open TM.AtomicCount TM.Gen.AtomicCounts

/-- **C05.close_decision_code_fact** — Registry::try_close: `let refs = ref_count.fetch_sub(1); if refs > 1 { return false }`,
no other load or store of the count (re-extracted from sharded.rs on every run) -/
theorem close_decision_code_fact : closeDecidedByFetchSub = true := by decide

/-- **C05.one_closer_interleaved** — the `n ≥ 1` references of a span released by `n` threads, every interleaving of the
count operations as the code performs them: never two threads conclude "I released the last one" (so the span is never
reported closed twice), once the count is 0 exactly one has (it is reported), and the count is what has not been released -/
theorem one_closer_interleaved (ths : List Nat) (hnd : ths.Nodup) (hne : ths ≠ []) (sched : List Nat) (hs : ∀ t ∈ sched, t ∈ ths) :
    let s := run true closeDecidedByFetchSub (fun _ => .dec) (start ths.length) sched
    closers s ths ≤ 1 ∧ (s.c = 0 → closers s ths = 1) ∧ s.c + finished s ths = ths.length := by
  rw [close_decision_code_fact]
  exact one_closer ths hnd hne (fun _ => .dec) (fun _ => rfl) sched hs

/-- **C05.two_closers_witness** — it depends on the decision being taken on the fetch_sub's own result: with a separate load
after the decrement, two threads releasing the last two references both conclude that they were the last -/
theorem two_closers_witness :
    closers (run true false (fun _ => .dec) (start 2) [0, 1, 0, 1]) [0, 1] = 2 := by decide

example : closers (run true closeDecidedByFetchSub (fun _ => .dec) (start 3) [2, 0, 1]) [0, 1, 2] = 1 := by decide

/-! ### threads as programs: handles cloned, moved between threads and dropped, in any interleaving -/

/-- **C05.closed_exactly_when_last_handle_goes** — the span created by thread `t0`; every thread runs its own program of
clone / drop / give (a handle moved to another thread), legal only through handles it holds; every interleaving of the count
operations as the code performs them: the span is reported closed at most once, and it HAS been reported closed exactly when no
thread holds a handle any more — never while one is held, and not later than the last drop -/
theorem closed_exactly_when_last_handle_goes (ths : List Nat) (hnd : ths.Nodup) (t0 : Nat) (h0 : t0 ∈ ths)
    (sched : List (Nat × TM.HandleRace.Act)) (hs : TM.HandleRace.Within ths sched) :
    let s := TM.HandleRace.run cloneIsRmw closeDecidedByFetchSub (TM.HandleRace.start t0) sched
    s.closes ≤ 1 ∧ (s.closes = 1 ↔ ∀ t ∈ ths, s.held t = 0) := by
  rw [close_decision_code_fact, show cloneIsRmw = true by decide]
  exact TM.HandleRace.closed_iff_no_handles ths _ (TM.HandleRace.run_inv ths hnd sched hs _ (TM.HandleRace.inv_start ths hnd t0 h0))

/-- **C05.closed_under_a_handle_witness** — with a non-atomic clone: two threads clone together (one reference is lost), three
drops later the span is reported closed while a thread still holds a handle -/
theorem closed_under_a_handle_witness :
    let s := TM.HandleRace.run false true (TM.HandleRace.start 0)
      [(0, .clone), (0, .step), (0, .give 1), (0, .clone), (1, .clone), (0, .step), (1, .step), (0, .drop), (0, .drop), (1, .drop)]
    s.closes = 1 ∧ s.held 1 = 1 := by decide

/-- **C05.closed_twice_witness** — with the close decided by a separate load: the last two handles dropped together, both
drops report the span closed -/
theorem closed_twice_witness :
    (TM.HandleRace.run true false (TM.HandleRace.start 0) [(0, .clone), (0, .give 1), (0, .drop), (1, .drop), (0, .step), (1, .step)]).closes = 2 := by
  decide

example : (TM.HandleRace.run cloneIsRmw closeDecidedByFetchSub (TM.HandleRace.start 0)
    [(0, .clone), (0, .give 1), (1, .clone), (0, .drop), (1, .drop), (1, .drop)]).closes = 1 := by decide

end C05
