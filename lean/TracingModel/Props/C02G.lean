/-
C02 / C04, the one-shot global default under real interleavings —
"set_global_default succeeds exactly once" (C02) for callers racing on several threads, and
"an emission that starts after a collector's installation has completed is judged by that collector" (C04).

Model: Core/GlobalInit.lean (one step = one atomic operation of `set_global_default`; any number of
threads, any schedule), parametrised by the election / publication facts extracted from dispatch.rs.
-/
import TracingModel.Props.C02
import TracingModel.Core.GlobalInit

namespace C02
open TM.GlobalInit

/-- the facts the property needs -/
def good : Facts := { cas := true, publishAfterWrite := true }

/-- **C02.global_code_facts** — what dispatch.rs says now (regenerated on every run): the election is one
compare-exchange, INITIALIZED is published after the write, a loser gets an error, readers require INITIALIZED -/
theorem global_code_facts :
    codeFacts = good ∧ TM.Gen.GlobalInit.loserGetsError = true ∧ TM.Gen.GlobalInit.readersRequireInitialized = true := by
  decide

def isW : PC → Bool
  | .won => true
  | .half => true
  | .done true => true
  | _ => false

structure Inv (coll : Nat → Nat) (s : S) : Prop where
  unique : ∀ t1 t2, isW (s.pc t1) = true → isW (s.pc t2) = true → t1 = t2
  uninit : s.init = 0 → (∀ t, isW (s.pc t) = false) ∧ s.disp = none
  noLoaded : ∀ t, s.pc t ≠ .loaded
  won : ∀ t, s.pc t = .won → s.init = 1 ∧ s.disp = none
  half : ∀ t, s.pc t = .half → s.init = 1 ∧ s.disp = some (coll t)
  doneOk : ∀ t, s.pc t = .done true → s.init = 2 ∧ s.disp = some (coll t)
  nonzero : s.init ≠ 0 → ∃ t, isW (s.pc t) = true

theorem Inv.start (coll : Nat → Nat) : Inv coll S.start :=
  ⟨(by intro t1 t2 h; cases h), fun _ => ⟨fun _ => rfl, rfl⟩, (by intro t h; cases h), (by intro t h; cases h),
   (by intro t h; cases h), (by intro t h; cases h), (by intro h; exact absurd rfl h)⟩

theorem upd_same (f : Nat → PC) (t : Nat) (v : PC) : upd f t v t = v := by simp [upd]
theorem upd_other (f : Nat → PC) (t x : Nat) (v : PC) (h : x ≠ t) : upd f t v x = f x := by simp [upd, h]

/-- a thread whose pc changes between two non-winning values changes nothing the invariant looks at -/
theorem inv_of_nonwinner (coll : Nat → Nat) (s : S) (h : Inv coll s) (t : Nat) (v : PC)
    (hold : isW (s.pc t) = false) (hv : isW v = false) (hvl : v ≠ .loaded) (hvw : v ≠ .won) (hvh : v ≠ .half) (hvd : v ≠ .done true) :
    Inv coll { s with pc := upd s.pc t v } := by
  have pcx : ∀ x, x ≠ t → upd s.pc t v x = s.pc x := fun x hx => upd_other _ _ _ _ hx
  have wx : ∀ x, isW (upd s.pc t v x) = true → x ≠ t ∧ isW (s.pc x) = true := by
    intro x hx
    by_cases e : x = t
    · subst e; rw [upd_same] at hx; rw [hv] at hx; cases hx
    · rw [pcx x e] at hx; exact ⟨e, hx⟩
  refine ⟨?_, ?_, ?_, ?_, ?_, ?_, ?_⟩
  · intro t1 t2 h1 h2; exact h.unique t1 t2 (wx t1 h1).2 (wx t2 h2).2
  · intro h0
    refine ⟨fun x => ?_, (h.uninit h0).2⟩
    by_cases e : x = t
    · subst e; simp only [upd_same]; exact hv
    · simp only [pcx x e]; exact (h.uninit h0).1 x
  · intro x hx
    by_cases e : x = t
    · subst e; simp only [upd_same] at hx; exact hvl hx
    · simp only [pcx x e] at hx; exact h.noLoaded x hx
  · intro x hx
    by_cases e : x = t
    · subst e; simp only [upd_same] at hx; exact absurd hx hvw
    · simp only [pcx x e] at hx; exact h.won x hx
  · intro x hx
    by_cases e : x = t
    · subst e; simp only [upd_same] at hx; exact absurd hx hvh
    · simp only [pcx x e] at hx; exact h.half x hx
  · intro x hx
    by_cases e : x = t
    · subst e; simp only [upd_same] at hx; exact absurd hx hvd
    · simp only [pcx x e] at hx; exact h.doneOk x hx
  · intro hn
    obtain ⟨x, hx⟩ := h.nonzero hn
    have e : x ≠ t := by intro e; subst e; rw [hold] at hx; cases hx
    exact ⟨x, by simp only [pcx x e]; exact hx⟩

/-- the invariant is preserved by every atomic step of every thread -/
theorem step_inv (coll : Nat → Nat) (s : S) (h : Inv coll s) (t : Nat) : Inv coll (step good coll s t) := by
  unfold step
  cases hp : s.pc t with
  | idle =>
    simp only [good, if_true]
    by_cases h0 : s.init = 0
    · simp only [h0, if_true]
      obtain ⟨nw, dn⟩ := h.uninit h0
      have pcx : ∀ x, x ≠ t → upd s.pc t .won x = s.pc x := fun x hx => upd_other _ _ _ _ hx
      have only : ∀ x, isW (upd s.pc t .won x) = true → x = t := by
        intro x hx
        by_cases e : x = t
        · exact e
        · rw [pcx x e, nw x] at hx; cases hx
      refine ⟨fun t1 t2 h1 h2 => (by rw [only t1 h1, only t2 h2]), fun hh => (by cases hh), ?_, ?_, ?_, ?_, fun _ => ⟨t, (by simp [upd_same, isW])⟩⟩
      · intro x hx
        by_cases e : x = t
        · subst e; simp only [upd_same] at hx; cases hx
        · simp only [pcx x e] at hx; exact h.noLoaded x hx
      · intro x hx
        by_cases e : x = t
        · exact ⟨rfl, dn⟩
        · simp only [pcx x e] at hx; have := nw x; rw [hx] at this; cases this
      · intro x hx
        by_cases e : x = t
        · subst e; simp only [upd_same] at hx; cases hx
        · simp only [pcx x e] at hx; have := nw x; rw [hx] at this; cases this
      · intro x hx
        by_cases e : x = t
        · subst e; simp only [upd_same] at hx; cases hx
        · simp only [pcx x e] at hx; have := nw x; rw [hx] at this; cases this
    · simp only [h0, if_false]
      exact inv_of_nonwinner coll s h t (.done false) (by rw [hp]; rfl) rfl (by simp) (by simp) (by simp) (by simp)
  | loaded => exact absurd hp (h.noLoaded t)
  | won =>
    simp only [good, if_true]
    obtain ⟨i1, _⟩ := h.won t hp
    have tw : isW (s.pc t) = true := by rw [hp]; rfl
    have pcx : ∀ x, x ≠ t → upd s.pc t .half x = s.pc x := fun x hx => upd_other _ _ _ _ hx
    have only : ∀ x, isW (upd s.pc t .half x) = true → x = t := by
      intro x hx
      by_cases e : x = t
      · exact e
      · rw [pcx x e] at hx; exact h.unique x t hx tw
    have others : ∀ x, x ≠ t → isW (s.pc x) = false := by
      intro x e
      cases hw : isW (s.pc x) with
      | false => rfl
      | true => exact absurd (h.unique x t hw tw) e
    refine ⟨fun t1 t2 h1 h2 => (by rw [only t1 h1, only t2 h2]), fun hh => (by simp only [] at hh; omega), ?_, ?_, ?_, ?_, fun _ => ⟨t, (by simp [upd_same, isW])⟩⟩
    · intro x hx
      by_cases e : x = t
      · subst e; simp only [upd_same] at hx; cases hx
      · simp only [pcx x e] at hx; exact h.noLoaded x hx
    · intro x hx
      by_cases e : x = t
      · subst e; simp only [upd_same] at hx; cases hx
      · simp only [pcx x e] at hx; have := others x e; rw [hx] at this; cases this
    · intro x hx
      by_cases e : x = t
      · subst e; exact ⟨i1, rfl⟩
      · simp only [pcx x e] at hx; have := others x e; rw [hx] at this; cases this
    · intro x hx
      by_cases e : x = t
      · subst e; simp only [upd_same] at hx; cases hx
      · simp only [pcx x e] at hx; have := others x e; rw [hx] at this; cases this
  | half =>
    simp only [good, if_true]
    obtain ⟨_, d1⟩ := h.half t hp
    have tw : isW (s.pc t) = true := by rw [hp]; rfl
    have pcx : ∀ x, x ≠ t → upd s.pc t (.done true) x = s.pc x := fun x hx => upd_other _ _ _ _ hx
    have only : ∀ x, isW (upd s.pc t (.done true) x) = true → x = t := by
      intro x hx
      by_cases e : x = t
      · exact e
      · rw [pcx x e] at hx; exact h.unique x t hx tw
    have others : ∀ x, x ≠ t → isW (s.pc x) = false := by
      intro x e
      cases hw : isW (s.pc x) with
      | false => rfl
      | true => exact absurd (h.unique x t hw tw) e
    refine ⟨fun t1 t2 h1 h2 => (by rw [only t1 h1, only t2 h2]), fun hh => (by cases hh), ?_, ?_, ?_, ?_, fun _ => ⟨t, (by simp [upd_same, isW])⟩⟩
    · intro x hx
      by_cases e : x = t
      · subst e; simp only [upd_same] at hx; cases hx
      · simp only [pcx x e] at hx; exact h.noLoaded x hx
    · intro x hx
      by_cases e : x = t
      · subst e; simp only [upd_same] at hx; cases hx
      · simp only [pcx x e] at hx; have := others x e; rw [hx] at this; cases this
    · intro x hx
      by_cases e : x = t
      · subst e; simp only [upd_same] at hx; cases hx
      · simp only [pcx x e] at hx; have := others x e; rw [hx] at this; cases this
    · intro x hx
      by_cases e : x = t
      · subst e; exact ⟨rfl, d1⟩
      · simp only [pcx x e] at hx; have := others x e; rw [hx] at this; cases this
  | done ok => simpa [hp] using h

theorem run_inv (coll : Nat → Nat) (sched : List Nat) (s : S) (h : Inv coll s) : Inv coll (run good coll s sched) := by
  induction sched generalizing s with
  | nil => exact h
  | cons t ts ih => exact ih _ (step_inv coll s h t)

/-- a call that has returned stays returned -/
theorem done_stays (F : Facts) (coll : Nat → Nat) (sched : List Nat) (s : S) (t : Nat) (ok : Bool) (h : s.pc t = .done ok) :
    (run F coll s sched).pc t = .done ok := by
  induction sched generalizing s with
  | nil => exact h
  | cons u us ih =>
    apply ih
    unfold step
    by_cases e : u = t
    · subst e; simp [h]
    · have hx : ∀ v, upd s.pc u v t = s.pc t := fun v => upd_other _ _ _ _ (fun e' => e e'.symm)
      cases hu : s.pc u <;> simp only [] <;> (try split) <;> (try split) <;> simp only [hx, h]

/-- **C02.global_once_interleaved** — however many threads call `set_global_default`, under EVERY
interleaving of their atomic steps, at most one call returns Ok -/
theorem global_once_interleaved (coll : Nat → Nat) (sched : List Nat) (t1 t2 : Nat)
    (h1 : (run good coll S.start sched).pc t1 = .done true) (h2 : (run good coll S.start sched).pc t2 = .done true) : t1 = t2 := by
  have inv := run_inv coll sched S.start (Inv.start coll)
  exact inv.unique t1 t2 (by rw [h1]; rfl) (by rw [h2]; rfl)

/-- **C02.installed_is_default** — once a call has returned Ok, `get_global` yields THAT caller's collector, and keeps doing
so after any further steps of any threads: an emission that starts after the installation has completed goes to it -/
theorem installed_is_default (coll : Nat → Nat) (sched more : List Nat) (t : Nat)
    (h : (run good coll S.start sched).pc t = .done true) :
    getGlobal (run good coll (run good coll S.start sched) more) = some (coll t) := by
  have inv := run_inv coll more _ (run_inv coll sched S.start (Inv.start coll))
  have hd := done_stays good coll more _ t true h
  obtain ⟨i2, d⟩ := inv.doneOk t hd
  simp [getGlobal, i2, d]

/-- **C02.reader_never_sees_half_installed** — `get_global` yields the no-op collector or the collector of a call that
HAS returned Ok; never a collector whose installation is still in progress -/
theorem reader_never_sees_half_installed (coll : Nat → Nat) (sched : List Nat) (c : Nat)
    (h : getGlobal (run good coll S.start sched) = some c) :
    ∃ t, (run good coll S.start sched).pc t = .done true ∧ coll t = c := by
  have inv := run_inv coll sched S.start (Inv.start coll)
  simp only [getGlobal] at h
  split at h
  · rename_i h2
    obtain ⟨t, ht⟩ := inv.nonzero (by omega)
    cases hp : (run good coll S.start sched).pc t with
    | idle => rw [hp] at ht; cases ht
    | loaded => rw [hp] at ht; cases ht
    | won => have := (inv.won t hp).1; omega
    | half => have := (inv.half t hp).1; omega
    | done ok =>
      cases ok with
      | false => rw [hp] at ht; cases ht
      | true =>
        have := (inv.doneOk t hp).2
        rw [this] at h
        exact ⟨t, hp, by simpa using h⟩
  · cases h

/-- **C02.election_witness** — the statement depends on the election being ONE atomic operation: with a load followed by
a store, two threads both return Ok and the first one's collector is not the global default -/
theorem election_witness :
    let F : Facts := { cas := false, publishAfterWrite := true }
    let s := run F (fun t => 10 + t) S.start [0, 1, 0, 1, 0, 0, 1, 1]
    s.pc 0 = .done true ∧ s.pc 1 = .done true ∧ getGlobal s = some 11 := by decide

end C02
