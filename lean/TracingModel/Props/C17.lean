/-
C17 — "#[instrument] preserves behaviour exactly and adds one well-formed span per call"

  A function carrying the instrument attribute returns the same value, panics with the same
  payload, evaluates and drops its arguments the same number of times and has the same side effects
  as the identical function without the attribute, under any collector or none. Each call creates
  exactly one span with the configured name, level, target, parent and fields (skipped arguments
  absent), the body - each poll of it, for async functions - runs inside that span and nothing else
  does, and ret/err events carry the returned value or error and are emitted inside the span.

Model: Core/Instrument.lean over facts extracted from tracing-attributes/src/expand.rs on every
run; the behaviour-preservation clause is judged on a generated, compiled corpus of twin functions.
-/
import TracingModel.Core.Instrument

namespace C17
open TM.Instrument TM.Gen.InstrumentFacts

/-- what expand.rs must say NOW -/
theorem code_facts :
    overrideSingleSegment = true ∧ skipFilter = true ∧ paramsThenCustom = true ∧ valueForm = true ∧ debugForm = true ∧
    errDefaultDisplay = true ∧ retDefaultDebug = true ∧ errLevelDefaultError = true ∧ retLevelDefaultSpan = true ∧
    syncSpanThenGuard = true ∧ asyncInstrumented = true ∧
    typesForValue = ["bool", "str", "u8", "i8", "u16", "i16", "u32", "i32", "u64", "i64", "u128", "i128", "f32", "f64", "usize", "isize",
      "String", "NonZeroU8", "NonZeroI8", "NonZeroU16", "NonZeroI16", "NonZeroU32", "NonZeroI32", "NonZeroU64", "NonZeroI64",
      "NonZeroU128", "NonZeroI128", "NonZeroUsize", "NonZeroIsize", "Wrapping"] :=
  ⟨by decide, by decide, by decide, by decide, by decide, by decide, by decide, by decide, by decide, by decide, by decide, by decide⟩

/-- **C17.attr_parse_facts** — what attr.rs must say NOW: the attribute's arguments are stored as parsed (the meaning of `ret` /
`err` does not depend on what was written before them: their default level is taken at expansion time, from the complete
argument set), an event's level defaults to the given default, the span's to INFO -/
theorem attr_parse_facts : argsStoredAsParsed = true ∧ levelDefaulting = true := ⟨by decide, by decide⟩

/-- **C17.fields_spec** — for ANY parameter list, skip list and custom fields: the span's fields are the
parameters that are neither skipped nor named by a custom field, in declaration order (through `Value` if
the type is in the table, else through Debug), followed by the custom fields in their order -/
theorem fields_spec (a : Attr) (ps : List Param) (customs : List Custom) :
    spanFields a ps customs =
      (ps.filter (fun p => !a.skips.contains p.name && !customs.any (fun c => c.name == p.name))).map
        (fun p => if typesForValue.contains p.tyname then s!"{p.name}={p.valRender}" else s!"{p.name}=debug:{p.dbgHex}") ++
      customs.map (fun c => s!"{c.name}={c.render}") := by
  simp only [spanFields, overridden, code_facts.1, code_facts.2.1, Bool.true_and, Bool.and_true]
  congr 1
  apply List.map_congr_left
  intro p _
  simp [renderParam, code_facts.2.2.2.1]

/-- a skipped argument never appears among the span's automatic fields -/
theorem skipped_absent (a : Attr) (ps : List Param) (customs : List Custom) (p : Param) (hs : a.skips.contains p.name = true) :
    p ∉ ps.filter (fun p => !(skipFilter && a.skips.contains p.name) && !overridden customs p) := by
  intro h
  have := (List.mem_filter.mp h).2
  simp only [code_facts.2.1, hs, Bool.and_self, Bool.not_true, Bool.false_and] at this
  cases this

def isNew : E → Bool | .new _ => true | _ => false
def isEv : E → Bool | .ev _ _ _ _ => true | _ => false

theorem tail_no_new (a : Attr) (o : Outcome) : (tailEvents a o).countP isNew = 0 ∧ (tailEvents a o).all isEv = true := by
  unfold tailEvents
  cases o with
  | panic => exact ⟨rfl, rfl⟩
  | val d s => cases a.ret <;> exact ⟨rfl, rfl⟩
  | ok d s => cases a.ret <;> cases a.err <;> exact ⟨rfl, rfl⟩
  | err d s => cases a.err <;> cases a.ret <;> exact ⟨rfl, rfl⟩

theorem countP_replicate_polls (n : Nat) : ((List.replicate n [E.poll, E.enter, E.exit]).flatten).countP isNew = 0 := by
  induction n with
  | zero => rfl
  | succ k ih => simp [List.replicate_succ, List.countP_append, ih, List.countP_cons, isNew]

/-- **C17.one_span** — every call (sync, or async with any number of pending points; any outcome incl. panic)
creates exactly ONE span, and it is the configured one -/
theorem one_span (a : Attr) (ps : List Param) (customs : List Custom) (o : Outcome) (yields : Nat) :
    (syncLog a ps customs o).countP isNew = 1 ∧ (asyncLog a ps customs o yields).countP isNew = 1 ∧
    E.new (newLine a ps customs) ∈ syncLog a ps customs o ∧ E.new (newLine a ps customs) ∈ asyncLog a ps customs o yields := by
  have ht := (tail_no_new a o).1
  refine ⟨?_, ?_, by simp [syncLog], ?_⟩
  · simp [syncLog, List.countP_append, List.countP_cons, isNew, bodyEvent, ht]
  · unfold asyncLog
    split
    · simp [List.countP_append, List.countP_cons, isNew, bodyEvent, ht]
    · simp [List.countP_append, List.countP_cons, isNew, bodyEvent, ht, countP_replicate_polls]
  · unfold asyncLog; split <;> simp

/-- the span depth while the log is replayed: `none` if an event (body, ret, err) happens outside the span or an exit has no enter -/
def depthAfter : List E → Nat → Option Nat
  | [], d => some d
  | .enter :: rest, d => depthAfter rest (d + 1)
  | .exit :: rest, d => if d = 0 then none else depthAfter rest (d - 1)
  | .ev _ _ _ _ :: rest, d => if d = 0 then none else depthAfter rest d
  | _ :: rest, d => depthAfter rest d

theorem depth_append (l1 l2 : List E) (d : Nat) :
    depthAfter (l1 ++ l2) d = (depthAfter l1 d).bind (depthAfter l2) := by
  induction l1 generalizing d with
  | nil => rfl
  | cons x xs ih =>
    cases x <;> simp only [List.cons_append, depthAfter, ih]
    · split <;> simp
    · split <;> simp

theorem depth_events (l : List E) (h : l.all isEv = true) (d : Nat) (hd : 0 < d) : depthAfter l d = some d := by
  induction l with
  | nil => rfl
  | cons x xs ih =>
    simp only [List.all_cons, Bool.and_eq_true] at h
    obtain ⟨hx, hxs⟩ := h
    cases x <;> simp only [isEv] at hx <;> try (cases hx)
    simp only [depthAfter]
    have : d ≠ 0 := by omega
    simp [this, ih hxs]

theorem depth_polls (n : Nat) : depthAfter ((List.replicate n [E.poll, E.enter, E.exit]).flatten) 0 = some 0 := by
  induction n with
  | zero => rfl
  | succ k ih => simp [List.replicate_succ, depth_append, depthAfter, ih]

/-- **C17.body_inside_span** — the body's events and the ret / err events all happen while the span is entered, every
enter has its exit (sync: one pair; async: one pair per poll plus the pair around the drop of the future) and the span
is exited at the end -/
theorem body_inside_span (a : Attr) (ps : List Param) (customs : List Custom) (o : Outcome) (yields : Nat) :
    depthAfter (syncLog a ps customs o) 0 = some 0 ∧ depthAfter (asyncLog a ps customs o yields) 0 = some 0 := by
  have ht := (tail_no_new a o).2
  constructor
  · simp [syncLog, depthAfter, bodyEvent, depth_append, depth_events _ ht 1 (by omega)]
  · unfold asyncLog
    split
    · simp [depthAfter, bodyEvent, depth_append, depth_events _ ht 1 (by omega)]
    · simp [depthAfter, bodyEvent, depth_append, depth_events _ ht 1 (by omega), depth_polls]

def isClose : E → Bool | .close => true | _ => false
def isEnter : E → Bool | .enter => true | _ => false
def isPoll : E → Bool | .poll => true | _ => false

theorem tail_counts (a : Attr) (o : Outcome) :
    (tailEvents a o).countP isClose = 0 ∧ (tailEvents a o).countP isEnter = 0 ∧ (tailEvents a o).countP isPoll = 0 ∧
    (tailEvents a o).length ≤ 1 := by
  unfold tailEvents
  cases o <;> simp only <;> (repeat' split) <;> simp [isClose, isEnter, isPoll]

theorem counts_replicate_polls (n : Nat) :
    ((List.replicate n [E.poll, E.enter, E.exit]).flatten).countP isClose = 0 ∧
    ((List.replicate n [E.poll, E.enter, E.exit]).flatten).countP isEnter = n ∧
    ((List.replicate n [E.poll, E.enter, E.exit]).flatten).countP isPoll = n := by
  induction n with
  | zero => simp
  | succ k ih =>
    obtain ⟨h1, h2, h3⟩ := ih
    simp only [List.replicate_succ, List.flatten_cons, List.countP_append, h1, h2, h3]
    simp [List.countP_cons, isClose, isEnter, isPoll]; omega

theorem last_of_suffix (l pre : List E) (h : l = pre ++ [E.close]) : l.getLast? = some .close := by subst h; simp

/-- **C17.closed_once_at_the_end** — every call (sync, or async with any number of pending points; any outcome incl. panic)
closes its span exactly once, and the close is the LAST thing the collector hears of the call: after the body, the ret / err
event and the final exit -/
theorem closed_once_at_the_end (a : Attr) (ps : List Param) (customs : List Custom) (o : Outcome) (yields : Nat) :
    (syncLog a ps customs o).countP isClose = 1 ∧ (syncLog a ps customs o).getLast? = some .close ∧
    (asyncLog a ps customs o yields).countP isClose = 1 ∧ (asyncLog a ps customs o yields).getLast? = some .close := by
  obtain ⟨hc, _, _, _⟩ := tail_counts a o
  refine ⟨?_, ?_, ?_, ?_⟩
  · simp [syncLog, List.countP_append, List.countP_cons, isClose, bodyEvent, hc]
  · exact last_of_suffix _ ([.new (newLine a ps customs), .enter, bodyEvent a "body"] ++ tailEvents a o ++ [.exit]) (by simp [syncLog])
  · unfold asyncLog
    split
    · simp [List.countP_append, List.countP_cons, isClose, bodyEvent, hc]
    · simp [List.countP_append, List.countP_cons, isClose, bodyEvent, hc, (counts_replicate_polls _).1]
  · unfold asyncLog
    split
    · exact last_of_suffix _ ([.poll, .new (newLine a ps customs), .enter, bodyEvent a "body"] ++ tailEvents a o ++ [.exit, .enter, .exit]) (by simp)
    · exact last_of_suffix _ ([.poll, .new (newLine a ps customs), .enter, bodyEvent a "body", .exit] ++
        (List.replicate (yields - 1) [E.poll, .enter, .exit]).flatten ++
        [.poll, .enter, bodyEvent a "after"] ++ tailEvents a o ++ [.exit, .enter, .exit]) (by simp)

/-- **C17.entered_once_per_poll** — an async function polled `yields + 1` times is polled exactly that often and its span is
entered exactly once per poll plus once around the drop of the future (never held across a pending point); a sync function's
span is entered exactly once -/
theorem entered_once_per_poll (a : Attr) (ps : List Param) (customs : List Custom) (o : Outcome) (yields : Nat) :
    (syncLog a ps customs o).countP isEnter = 1 ∧
    (asyncLog a ps customs o yields).countP isPoll = yields + 1 ∧
    (asyncLog a ps customs o yields).countP isEnter = yields + 2 := by
  obtain ⟨_, he, hp, _⟩ := tail_counts a o
  refine ⟨?_, ?_, ?_⟩
  · simp [syncLog, List.countP_append, List.countP_cons, isEnter, bodyEvent, he]
  · unfold asyncLog
    split
    · rename_i h; simp [List.countP_append, List.countP_cons, isPoll, bodyEvent, hp, h]
    · simp [List.countP_append, List.countP_cons, isPoll, bodyEvent, hp, (counts_replicate_polls _).2.2]; omega
  · unfold asyncLog
    split
    · rename_i h; simp [List.countP_append, List.countP_cons, isEnter, bodyEvent, he, h]
    · simp [List.countP_append, List.countP_cons, isEnter, bodyEvent, he, (counts_replicate_polls _).2.1]; omega

/-- **C17.at_most_one_tail_event** — a call adds at most one ret / err event to what the body itself emits, and a panic none -/
theorem at_most_one_tail_event (a : Attr) (o : Outcome) : (tailEvents a o).length ≤ 1 ∧ tailEvents a .panic = [] :=
  ⟨(tail_counts a o).2.2.2, rfl⟩

/-- **C17.ret_err_events** — which event the configured `ret` / `err` produce: `ret` shows the value (Debug by default),
`err` the error (Display by default, level ERROR by default); on a `Result` without `err` the whole Result is shown; a panic
produces neither -/
theorem ret_err_events (a : Attr) (r e : EventCfg) (d s : String) :
    tailEvents { a with ret := some r, err := some e } (.ok d s) = [.ev r.level a.target "return" (pick r.mode d s)] ∧
    tailEvents { a with ret := some r, err := some e } (.err d s) = [.ev e.level a.target "error" (pick e.mode d s)] ∧
    tailEvents { a with ret := some r, err := none } (.val d s) = [.ev r.level a.target "return" (pick r.mode d s)] ∧
    tailEvents { a with ret := none, err := some e } (.ok d s) = [] ∧
    tailEvents a .panic = [] := by
  simp [tailEvents]

/-! ### non-vacuity -/
example :
    let a : Attr := { name := "66", level := 3, target := "74", modpath := "6d", skips := ["62"], parentRoot := false, ret := some ⟨.debug, 3⟩, err := none }
    let ps : List Param := [⟨"61", "u32", "u64:5", "35"⟩, ⟨"62", "Droppy", "-", "44"⟩, ⟨"63", "Vec", "-", "5b5d"⟩]
    spanFields a ps [⟨"6b", "u64:6"⟩] = ["61=u64:5", "63=debug:5b5d", "6b=u64:6"] ∧ (syncLog a ps [] (.val "36" "36")).length = 6 := by decide

end C17
