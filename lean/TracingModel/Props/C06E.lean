/-
C06, events — "a span or event created without an explicit parent gets that span as parent, an explicit parent or
explicit root overrides it": what a layer without a filter of its own is shown as an event's span and scope
(Context::event_span / event_scope, model Core/Lookup with no FilterId), and which parent the registry stores for a new span.
-/
import TracingModel.Props.C06
import TracingModel.Core.Lookup

namespace C06
open TM.Lookup TM.Filtering

theorem visible_unfiltered (s : LState) (k : Nat) : visible s none k = exists_ s k := by
  simp only [visible, exists_]
  cases s.t.spans.lookup k <;> rfl

/-- **C06.event_parent_resolution** — an explicit-root event has no span; a contextual event gets the most recently entered
span that is still in the registry; an event with an explicit parent gets exactly that span (whatever is entered) -/
theorem event_parent_resolution (s : LState) (j : Nat) :
    eventSpan s none .root = none ∧
    eventSpan s none .contextual = s.stack.find? (exists_ s) ∧
    (exists_ s j = true → eventSpan s none (.explicit j) = some j) := by
  refine ⟨rfl, ?_, ?_⟩
  · simp only [eventSpan, lookupCurrent]
    congr 1
    funext k
    exact visible_unfiltered s k
  · intro h
    simp only [eventSpan, h, if_true, spanRef, visible_unfiltered]

/-- **C06.span_parent_resolution** — the parent the registry stores with a new span: none for an explicit root, the top of
the thread's stack for a contextual span, the named span for an explicit parent -/
theorem span_parent_resolution (s : LState) (j : Nat) :
    resolve s .root = none ∧ resolve s .contextual = s.stack.head? ∧
    (exists_ s j = true → resolve s (.explicit j) = some j) := by
  refine ⟨rfl, rfl, ?_⟩
  intro h; simp [resolve, h]

/-- an event's scope is its span followed by that span's ancestors, root last -/
theorem event_scope_is_chain (s : LState) (p : Par) (k : Nat) (h : eventSpan s none p = some k)
    (hall : ∀ x ∈ ancestors s k, exists_ s x = true) :
    eventScope s none p = some (ancestors s k) := by
  simp only [eventScope, h, Option.map_some, scopeFrom, Option.some.injEq]
  apply List.filter_eq_self.mpr
  intro x hx
  rw [visible_unfiltered]
  exact hall x hx

end C06
