/-
C02 — "An emission goes to the thread's scoped default, else to the global default"

  On every thread an emission is handed to the collector installed by the innermost still-live
  set_default/with_default scope of that thread; if the thread has no live scope, to the
  process-wide default when one has been set (by any thread, at any earlier time), and otherwise
  it is discarded. Scopes nest and unwind in LIFO order, are restored on panic, never affect
  another thread, and set_global_default succeeds exactly once.

Model: Core/Dispatch.lean (dispatch.rs after the "fix:" commit for F1: the thread-local keeps
`None` for "no scoped default" and reads fall back to the global default as it is now).
Specification: per-thread stacks of live scopes + "global set so far" (Spec/CoreSpec.lean).
-/
import TracingModel.Lemmas.CallsiteRefine

namespace C02
open TM.Dispatch TM.Callsite TM.Spec.CoreSpec TM.CoreLemmas

/-- the dispatch relation holds in every state reachable by any finite history (no hypothesis
on the filters: this part does not depend on the caches) -/
theorem rel_reachable (st : Nat) (lvl : Cs → Nat) (ops : List Op) (s : CState) (sp : SState) (hr : DRel s sp) :
    DRel (TM.Callsite.run st lvl s ops).1 (TM.Spec.CoreSpec.run st lvl sp ops).1 := by
  induction ops generalizing s sp with
  | nil => exact hr
  | cons op ops ih =>
    simp only [TM.Callsite.run, TM.Spec.CoreSpec.run]
    exact ih _ _ (step_drel st lvl s sp op hr)

/-- **C02.current_is_innermost** — after EVERY finite history of scope opens/closes (properly
nested per thread; unwinding = closes), global-default attempts, thread starts and anything
else, on every thread: what `get_default` resolves to (fast path or slow path, whatever the
scope counter says) is the top of that thread's stack of live scopes, else the global default
if its installation has completed, else nothing. -/
theorem current_is_innermost (st : Nat) (lvl : Cs → Nat) (ops : List Op) (t : Tid) :
    current (TM.Callsite.run st lvl CState.init ops).1.d t
      = currentCollector (TM.Spec.CoreSpec.run st lvl SState.init ops).1 t :=
  current_eq _ _ (rel_reachable st lvl ops _ _ DRel.init) t

/-- **C02.lifo_restore** — closing a scope (normally or by unwinding: `Drop for DefaultGuard`)
restores exactly what was current before it was opened, on every thread -/
theorem lifo_restore (st : Nat) (lvl : Cs → Nat) (s : CState) (sp : SState) (hr : DRel s sp) (t : Tid) (c : Cid)
    (hv : t < s.nthreads ∧ s.handle c = true) (t' : Tid) :
    current (TM.Callsite.run st lvl s [.setDefault t c, .popDefault t]).1.d t' = current s.d t' := by
  have h2 := rel_reachable st lvl [.setDefault t c, .popDefault t] s sp hr
  rw [current_eq _ _ h2 t', current_eq _ _ hr t']
  have hc : t < sp.nthreads ∧ sp.handle c = true := by rw [← hr.nthreads, ← hr.handle]; exact hv
  simp only [TM.Spec.CoreSpec.run, TM.Spec.CoreSpec.step, currentCollector, hc, and_self, if_true]
  by_cases e : t' = t
  · subst e; simp
  · simp [update_other _ _ _ _ e]

/-- **C02.frame** — opening or closing a scope on thread `t` never changes what another thread
resolves to -/
theorem frame (st : Nat) (lvl : Cs → Nat) (s : CState) (sp : SState) (hr : DRel s sp) (t t' : Tid) (c : Cid)
    (hne : t' ≠ t) :
    current (TM.Callsite.step st lvl s (.setDefault t c)).1.d t' = current s.d t' ∧
    current (TM.Callsite.step st lvl s (.popDefault t)).1.d t' = current s.d t' := by
  have h1 := step_drel st lvl s sp (.setDefault t c) hr
  have h2 := step_drel st lvl s sp (.popDefault t) hr
  rw [current_eq _ _ h1 t', current_eq _ _ h2 t', current_eq _ _ hr t']
  simp only [TM.Spec.CoreSpec.step, currentCollector]
  constructor
  · by_cases hc : t < sp.nthreads ∧ sp.handle c = true
    · simp only [hc, and_self, if_true, update_other _ _ _ _ hne]
    · simp only [hc, if_false]
  · by_cases hc : t < sp.nthreads
    · simp only [hc, if_true, update_other _ _ _ _ hne]
    · simp only [hc, if_false]

/-- number of `set_global_default` calls that returned `Ok` in an output list -/
def okCount : List Out → Nat
  | [] => 0
  | .setGlobal true :: r => okCount r + 1
  | _ :: r => okCount r

private theorem okCount_after_set (st : Nat) (lvl : Cs → Nat) (ops : List Op) (sp : SState) (h : sp.glob ≠ none) :
    okCount (TM.Spec.CoreSpec.run st lvl sp ops).2 = 0 ∧ (TM.Spec.CoreSpec.run st lvl sp ops).1.glob ≠ none := by
  induction ops generalizing sp with
  | nil => exact ⟨rfl, h⟩
  | cons op ops ih =>
    simp only [TM.Spec.CoreSpec.run]
    have hstep : (TM.Spec.CoreSpec.step st lvl sp op).1.glob ≠ none ∧
        (TM.Spec.CoreSpec.step st lvl sp op).2 ≠ .setGlobal true := by
      cases op <;> simp only [TM.Spec.CoreSpec.step] <;> (try split) <;> (try split) <;> simp_all
    obtain ⟨i1, i2⟩ := ih _ hstep.1
    refine ⟨?_, i2⟩
    cases ho : (TM.Spec.CoreSpec.step st lvl sp op).2 with
    | none => simpa [okCount] using i1
    | delivered a b c => simpa [okCount] using i1
    | setGlobal ok =>
      cases ok with
      | true => exact absurd ho hstep.2
      | false => simpa [okCount] using i1

private theorem okCount_spec (st : Nat) (lvl : Cs → Nat) (ops : List Op) (sp : SState) :
    okCount (TM.Spec.CoreSpec.run st lvl sp ops).2 ≤ 1 := by
  induction ops generalizing sp with
  | nil => exact Nat.zero_le _
  | cons op ops ih =>
    simp only [TM.Spec.CoreSpec.run]
    cases ho : (TM.Spec.CoreSpec.step st lvl sp op).2 with
    | none => simpa [okCount] using ih _
    | delivered a b c => simpa [okCount] using ih _
    | setGlobal ok =>
      cases ok with
      | false => simpa [okCount] using ih _
      | true =>
        have hg : (TM.Spec.CoreSpec.step st lvl sp op).1.glob ≠ none := by
          cases op <;> simp only [TM.Spec.CoreSpec.step] at ho ⊢ <;> (try split at ho) <;> (try split at ho) <;> simp_all
        have := (okCount_after_set st lvl ops _ hg).1
        simp [okCount, this]

/-- **C02.global_once (sequential)** — in every history at most one `set_global_default` returns
`Ok`, it is the first one made with a collector the program holds, and every later call fails
(the interleaving of the call's three atomic steps is `TM.GlobalInit`, theorem
`global_once_interleaved`) -/
theorem global_once (st : Nat) (lvl : Cs → Nat) (ops : List Op) (hsc : ∀ op ∈ ops, OpSC lvl op) :
    okCount (TM.Callsite.run st lvl CState.init ops).2 ≤ 1 := by
  rw [TM.Refine.refines_spec_init st lvl ops hsc]
  exact okCount_spec st lvl ops _

/-- non-vacuity and the F1 regression: a thread that opened and closed a scope BEFORE the global
default existed still resolves to the global default later, while another thread holds a scope -/
example :
    let all : Filt := { stat := fun _ => .always, dyn := fun _ => true, hint := none }
    (TM.Callsite.run 5 (fun cs => cs / 6 + 1) CState.init
      [.newCollector 1 all, .newCollector 2 all, .newCollector 3 all, .threadStart,
       .setDefault 0 1, .emit 0 0, .popDefault 0,      -- thread 0 used a scope before any global default
       .setGlobal 2, .setDefault 1 3,                  -- global installed; thread 1 holds a scope
       .emit 0 0, .emit 1 0, .setGlobal 3]).2
    = [.none, .none, .none, .none, .none, .delivered 0 0 (some 1), .none, .setGlobal true, .none,
       .delivered 0 0 (some 2), .delivered 1 0 (some 3), .setGlobal false] := by decide

end C02
