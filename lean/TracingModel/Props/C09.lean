/-
C09 — "Every layer sees every notification exactly once; wrappers are transparent"

  In an unfiltered stack each layer receives each notification kind (callsite registration, new
  span, record, follows-from, event, enter, exit, close, dispatcher registration) exactly once per
  occurrence, inner layers before outer ones, and a veto from one layer's event or metadata check
  stops delivery to all. Wrapping a collector, layer or filter in the provided pass-through
  wrappers (Box, Arc, Some, a one-element Vec, a reload handle, an identity layer) changes neither
  what it observes nor what its neighbours observe, and None or an empty Vec behaves as if absent.

Model: GENERATED.  Gen/Forwarding.lean is the table (wrapper, trait, method) ↦ forward / absent /
custom extracted from the hand-written impl blocks (collect.rs, subscribe/mod.rs incl. the
`subscriber_impl_body!` / `filter_impl_body!` macros, reload.rs, subscriber_filters/mod.rs) and the
ordered calls of every method of both `Layered` impls.  An impl that stops forwarding a method, or a
trait that gains a method nobody classified, breaks the obligation named after it.
-/
import TracingModel.Gen.Forwarding
import TracingModel.Lemmas.Notify

namespace C09
open TM.Gen.Forwarding

def cls (w tr m : String) : String :=
  match table.find? (fun r => r.1 == w && r.2.1 == tr && r.2.2.1 == m) with
  | some r => r.2.2.2
  | none => "missing"

/-- the notification kinds of the property, per trait (everything a recording component can observe) -/
def collectNotifs : List String :=
  ["on_register_dispatch", "register_callsite", "enabled", "max_level_hint", "new_span", "record",
   "record_follows_from", "event_enabled", "event", "enter", "exit", "clone_span", "try_close", "current_span"]
def subscribeNotifs : List String :=
  ["on_register_dispatch", "on_subscribe", "register_callsite", "enabled", "on_new_span", "max_level_hint",
   "on_record", "on_follows_from", "event_enabled", "on_event", "on_enter", "on_exit", "on_close", "on_id_change"]
def filterNotifs : List String :=
  ["enabled", "callsite_enabled", "max_level_hint", "event_enabled", "on_new_span", "on_record", "on_enter", "on_exit", "on_close"]

/-- methods that are deliberately not part of the transparency claim: the deprecated `drop_span`
(superseded by `try_close`, which is forwarded) and the type-erasure helper `downcast_raw` -/
def exempt : List String := ["drop_span", "downcast_raw"]

/-- **trait coverage** — every method the three traits declare NOW is either a notification the
theorems below speak about or explicitly exempt; a new trait method breaks this until classified -/
theorem traits_covered :
    (collectMethods.all fun m => collectNotifs.contains m || exempt.contains m) = true ∧
    (subscribeMethods.all fun m => subscribeNotifs.contains m || exempt.contains m) = true ∧
    (filterMethods.all fun m => filterNotifs.contains m) = true := by decide

/-- **C09.passthrough (Collect)** — `Box<C>` and `Arc<C>` forward every notification to the wrapped
collector: same method, nothing else -/
theorem passthrough_collect :
    (["Box<C>", "Arc<C>"].all fun w => collectNotifs.all fun m => cls w "Collect" m == "forward") = true := by decide

/-- **C09.passthrough (Subscribe)** — `Box<S>`, `Box<dyn Subscribe>`, `Option<S>` (for `Some`), `Vec<S>`
(for each element) and `reload::Subscriber` forward every notification -/
theorem passthrough_subscribe :
    (["Box<S>", "Box<dyn Subscribe>", "Option<S>", "Vec<S>", "reload::Subscriber"].all fun w =>
       subscribeNotifs.all fun m => cls w "Subscribe" m == "forward") = true := by decide

/-- **C09.passthrough (Filter)** — `Arc<dyn Filter>`, `Box<dyn Filter>`, `Option<F>` and
`reload::Subscriber` forward every filter method -/
theorem passthrough_filter :
    (["Arc<dyn Filter>", "Box<dyn Filter>", "Option<F>", "reload::Subscriber"].all fun w =>
       filterNotifs.all fun m => cls w "Filter" m == "forward") = true := by decide

/-! ### what the patterns mean, over an abstract recording component -/

/-- a recording component: the notifications it has observed, oldest first -/
abbrev Comp := List String

def observe (c : Comp) (m : String) : Comp := c ++ [m]

/-- calling method `m` on `wrapper(x)`: `forward` reaches x once; `absent` runs the trait default,
which does not tell x -/
def callThrough (pattern : String) (x : Comp) (m : String) : Comp :=
  if pattern == "forward" then observe x m else x

/-- **C09.passthrough (semantics)** — through any of the pass-through wrappers, for every
notification kind, the wrapped component observes exactly what it would observe unwrapped; by
induction the same holds for any nesting of wrappers -/
theorem wrapped_observes_same (w tr m : String) (h : cls w tr m = "forward") (x : Comp) :
    callThrough (cls w tr m) x m = observe x m := by
  simp [callThrough, h]

theorem nested_wrappers (ws : List (String × String)) (m : String)
    (h : ∀ w ∈ ws, cls w.1 w.2 m = "forward") (x : Comp) :
    ws.foldl (fun acc w => if cls w.1 w.2 m == "forward" then acc else false) true = true ∧
    callThrough "forward" x m = observe x m := by
  refine ⟨?_, by simp [callThrough]⟩
  induction ws with
  | nil => rfl
  | cons w rest ih =>
    have hw := h w (by simp)
    simp only [List.foldl_cons, hw, beq_self_eq_true, if_true]
    exact ih (fun w' hw' => h w' (List.mem_cons_of_mem _ hw'))

/-! ### `Layered`: every layer once, inner before outer; vetoes stop everything -/

def layeredCalls (impl m : String) : List (String × String) :=
  match layered.find? (fun r => r.1 == impl && r.2.1 == m) with
  | some r => r.2.2
  | none => []

/-- the Collect-level `Layered` hands every notification to the inner collector first and then to
its own layer, once each -/
theorem layered_collect_shape :
    ([("new_span", "on_new_span"), ("record", "on_record"), ("record_follows_from", "on_follows_from"),
      ("event", "on_event"), ("enter", "on_enter"), ("exit", "on_exit"), ("try_close", "on_close"),
      ("on_register_dispatch", "on_register_dispatch")].all fun p =>
        layeredCalls "Collect" p.1 == [("inner", p.1), ("subscriber", p.2)]) = true := by decide

/-- the Subscribe-level `Layered` (`and_then`) does the same for the span/event notifications -/
theorem layered_subscribe_shape :
    (["on_new_span", "on_record", "on_follows_from", "on_event", "on_enter", "on_exit", "on_close", "on_id_change"].all fun m =>
        layeredCalls "Subscribe" m == [("inner", m), ("subscriber", m)]) = true := by decide

/-- the metadata / event checks ask the outer layer first and only then the inner stack (so a veto
stops delivery to all) and callsite registration reaches both -/
theorem layered_veto_shape :
    (["enabled", "event_enabled", "register_callsite"].all fun m =>
        layeredCalls "Collect" m == [("subscriber", m), ("inner", m)] &&
        layeredCalls "Subscribe" m == [("subscriber", m), ("inner", m)]) = true := by decide

/-- order in which a stack of `n` layers (0 innermost) is notified when every `Layered` calls
"inner, then own layer" -/
def notifyOrder : Nat → List Nat
  | 0 => []
  | n + 1 => notifyOrder n ++ [n]

/-- **C09.layered_once_inner_first** — for stacks of ANY height: every layer is notified exactly
once per occurrence, inner layers before outer ones -/
theorem layered_once_inner_first (n : Nat) : notifyOrder n = List.range n := by
  induction n with
  | zero => rfl
  | succ k ih => rw [notifyOrder, ih, List.range_succ]

/-- a veto anywhere stops delivery to all: with "outer first, inner only if the outer accepted" the
stack's answer is the conjunction of all layers' answers -/
def stackEnabled : List Bool → Bool      -- outermost first
  | [] => true
  | outer :: inner => if outer then stackEnabled inner else false

theorem veto_stops_all (answers : List Bool) : stackEnabled answers = answers.all id := by
  induction answers with
  | nil => rfl
  | cons a rest ih => cases a <;> simp [stackEnabled, ih]

/-- after the repair of F23 both `Layered` impls announce dispatcher registration inner-first -/
theorem dispatch_registration_inner_first :
    layeredCalls "Subscribe" "on_register_dispatch" = [("inner", "on_register_dispatch"), ("subscriber", "on_register_dispatch")] ∧
    layeredCalls "Collect" "on_register_dispatch" = [("inner", "on_register_dispatch"), ("subscriber", "on_register_dispatch")] := by decide

end C09

/-! ## the fan-out model (Core/Notify.lean, interpreting the generated tables) refines the list spec -/

namespace C09
open TM.Notify TM.NotifySpec
open TM.Callsite (Interest)

/-- the data notifications of the `Subscribe` trait -/
def dataMethods : List String :=
  ["on_new_span", "on_record", "on_follows_from", "on_event", "on_enter", "on_exit", "on_close", "on_id_change",
   "on_register_dispatch"]

/-- what layered.rs says NOW about each of them: straight-line, inner then own layer -/
theorem table_data : ∀ m ∈ dataMethods, SeqInnerFirst m := by decide
theorem table_subscribe : SeqOuterFirst "on_subscribe" := by decide
theorem table_checks : GuardOuterFirst "enabled" ∧ GuardOuterFirst "event_enabled" := by decide

/-- and about the top-level `Layered<_, Registry>` (Collect impl) -/
abbrev CollectSeq (m m' : String) : Prop :=
  shape "Collect" m = "seq" ∧ calls "Collect" m = [("inner", m), ("subscriber", m')]
theorem table_collect :
    CollectSeq "new_span" "on_new_span" ∧ CollectSeq "record" "on_record" ∧
    CollectSeq "record_follows_from" "on_follows_from" ∧ CollectSeq "event" "on_event" ∧
    CollectSeq "enter" "on_enter" ∧ CollectSeq "exit" "on_exit" ∧
    CollectSeq "on_register_dispatch" "on_register_dispatch" ∧
    (shape "Collect" "try_close" = "if_inner" ∧ calls "Collect" "try_close" = [("inner", "try_close"), ("subscriber", "on_close")]) ∧
    (shape "Collect" "enabled" = "guard" ∧ calls "Collect" "enabled" = [("subscriber", "enabled"), ("inner", "enabled")]) ∧
    (shape "Collect" "event_enabled" = "guard" ∧ calls "Collect" "event_enabled" = [("subscriber", "event_enabled"), ("inner", "event_enabled")]) := by
  decide

/-- **C09.each_layer_once_inner_first** — for EVERY `and_then` tree (any shape, any size) and every
data notification: each layer is told exactly once, inner layers before outer ones -/
theorem each_layer_once_inner_first (t : Tree) (m : String) (hm : m ∈ dataMethods) :
    notifyT t m = (leaves t).map fun l => (l.n, m) :=
  notifyT_inner_first (table_data m hm) t

/-- **C09.veto_is_conjunction** — a check (`enabled`, `event_enabled`) through any tree answers the
conjunction of the layers' answers, asks from the outside in, each layer at most once, and asks
nobody after the first veto -/
theorem veto_is_conjunction (t : Tree) (ans : Layer → Bool) (m : String) (hm : m = "enabled" ∨ m = "event_enabled") :
    (checkT ans t m).1 = (leaves t).all ans ∧
    (checkT ans t m).2 <+: (leaves t).reverse.map (fun l => (l.n, m)) := by
  have hg : GuardOuterFirst m := by rcases hm with rfl | rfl; exact table_checks.1; exact table_checks.2
  rw [checkT_outer_first hg]
  exact ⟨by rw [sCheckGo_all, List.all_reverse], sCheckGo_log_prefix _ _ _⟩

theorem topNotify_eq {m m' : String} (h : CollectSeq m m') (hs : SeqInnerFirst m') (t : Tree) :
    topNotify t m = sNotify (leaves t) m' := by
  simp only [topNotify, h.1, h.2, beq_self_eq_true, if_true, List.flatMap_cons, List.flatMap_nil, List.append_nil]
  simp only [show (("inner" : String) == "subscriber") = false by decide, Bool.false_eq_true, if_false, List.nil_append]
  exact notifyT_inner_first hs t

theorem topCheck_eq (ans : Layer → Bool) (t : Tree) (m : String) (hm : m = "enabled" ∨ m = "event_enabled") :
    topCheck ans t m = sCheck ans (leaves t) m := by
  have hg : GuardOuterFirst m := by rcases hm with rfl | rfl; exact table_checks.1; exact table_checks.2
  rcases hm with rfl | rfl
  · simp only [topCheck, table_collect.2.2.2.2.2.2.2.2.1.1, table_collect.2.2.2.2.2.2.2.2.1.2, beq_self_eq_true, if_true,
      Bool.and_self, sCheck]
    exact checkT_outer_first hg ans t
  · simp only [topCheck, table_collect.2.2.2.2.2.2.2.2.2.1, table_collect.2.2.2.2.2.2.2.2.2.2, beq_self_eq_true, if_true,
      Bool.and_self, sCheck]
    exact checkT_outer_first hg ans t

theorem topClose_eq (t : Tree) : topClose t = sNotify (leaves t) "on_close" := by
  simp only [topClose, table_collect.2.2.2.2.2.2.2.1.1, table_collect.2.2.2.2.2.2.2.1.2, beq_self_eq_true, if_true,
    List.flatMap_cons, List.flatMap_nil, List.append_nil]
  simp only [show (("inner" : String) == "subscriber") = false by decide, Bool.false_eq_true, if_false, List.nil_append]
  exact notifyT_inner_first (table_data _ (by decide)) t

theorem init_eq (t : Tree) : NState.init t = sInit (leaves t) := by
  simp only [NState.init, sInit]
  rw [notifyT_outer_first table_subscribe, topNotify_eq table_collect.2.2.2.2.2.2.1 (table_data _ (by decide))]

theorem gate_eq (t : Tree) (h : NoNever t) (s : NState) (mi : Nat) : gate t s mi = sGate (leaves t) s mi := by
  have hi : interestFor t s mi = sInterestFor (leaves t) s mi := by
    simp only [interestFor, sInterestFor, (registerT_noNever (levelOf mi) t h).1]; rfl
  simp only [gate, sGate, hi, topCheck_eq _ t "enabled" (Or.inl rfl)]; rfl

theorem step_eq (t : Tree) (h : NoNever t) (s : NState) (op : Op) : step t s op = sStep (leaves t) s op := by
  cases op with
  | event mi =>
    simp only [step, sStep, gate_eq t h, topCheck_eq _ t "event_enabled" (Or.inr rfl),
      topNotify_eq table_collect.2.2.2.1 (table_data _ (by decide))]
  | span k mi =>
    simp only [step, sStep, gate_eq t h, topNotify_eq table_collect.1 (table_data _ (by decide))]
  | life m k =>
    cases m <;> simp only [step, sStep, Life.collect]
    · rw [topNotify_eq table_collect.2.2.2.2.1 (table_data _ (by decide))]
    · rw [topNotify_eq table_collect.2.2.2.2.2.1 (table_data _ (by decide))]
    · rw [topNotify_eq table_collect.2.1 (table_data _ (by decide))]
  | follows k j =>
    simp only [step, sStep, topNotify_eq table_collect.2.2.1 (table_data _ (by decide))]
  | close k => simp only [step, sStep, topClose_eq]

/-- **C09.refines_spec** — for every `and_then` tree in which no layer statically refuses callsites
and EVERY history of events, spans, enter/exit/record/follows-from/close: the stack built from
`Layered` (as layered.rs describes it now) produces exactly the notification log that the list
specification demands — every layer once per occurrence, inner before outer, checks from the
outside in, nothing delivered after a veto -/
theorem refines_spec (t : Tree) (h : NoNever t) (ops : List Op) : run t ops = sRun (leaves t) ops := by
  unfold run sRun
  rw [init_eq]
  generalize sInit (leaves t) = s
  induction ops generalizing s with
  | nil => rfl
  | cons op rest ih => simp only [List.foldl_cons, step_eq t h]; exact ih _

/-! ### vetoes, stated over the specification (and hence, by `refines_spec`, over the code's model) -/

/-- entries appended by one step -/
def appended (before after : NState) : List Entry := after.log.drop before.log.length

theorem sInterestFor_log (ls : List Layer) (s : NState) (mi : Nat) :
    ∃ extra, (sInterestFor ls s mi).1.log = s.log ++ extra ∧ ∀ e ∈ extra, e.2 = "register_callsite" := by
  unfold sInterestFor
  split
  · exact ⟨[], by simp, by simp⟩
  · refine ⟨(sRegister (levelOf mi) ls).2, rfl, ?_⟩
    intro e he
    simp only [sRegister, List.mem_map] at he
    obtain ⟨l, _, rfl⟩ := he; rfl

theorem sCheck_log_kind (ans : Layer → Bool) (ls : List Layer) (m : String) : ∀ e ∈ (sCheck ans ls m).2, e.2 = m := by
  intro e he
  have := (sCheckGo_log_prefix ans m ls.reverse).subset he
  simp only [List.mem_map] at this
  obtain ⟨l, _, rfl⟩ := this; rfl

theorem sGate_log (ls : List Layer) (s : NState) (mi : Nat) :
    ∃ extra, (sGate ls s mi).1.log = s.log ++ extra ∧ ∀ e ∈ extra, e.2 = "register_callsite" ∨ e.2 = "enabled" := by
  obtain ⟨x, hx, hk⟩ := sInterestFor_log ls s mi
  unfold sGate
  dsimp only
  split
  · exact ⟨x, hx, fun e he => Or.inl (hk e he)⟩
  · exact ⟨x, hx, fun e he => Or.inl (hk e he)⟩
  · refine ⟨x ++ (sCheck (acceptsMeta (levelOf mi)) ls "enabled").2, by simp [hx], ?_⟩
    intro e he
    rcases List.mem_append.mp he with h | h
    · exact Or.inl (hk e h)
    · exact Or.inr (sCheck_log_kind _ _ _ e h)

/-- **C09.event_veto_stops_all** — if ANY layer's `event_enabled` refuses the event, the step delivers
`on_event` to NO layer (whatever the other layers say, wherever the refusing layer sits) -/
theorem event_veto_stops_all (ls : List Layer) (s : NState) (mi : Nat)
    (hv : ∃ l ∈ ls, acceptsEvent (levelOf mi) l = false) :
    ∀ e ∈ appended s (sStep ls s (.event mi)), e.2 ≠ "on_event" := by
  obtain ⟨x, hx, hk⟩ := sGate_log ls s mi
  have hc : (sCheck (acceptsEvent (levelOf mi)) ls "event_enabled").1 = false := by
    simp only [sCheck, sCheckGo_all, List.all_reverse]
    obtain ⟨l, hl, ha⟩ := hv
    simp only [List.all_eq_false]
    exact ⟨l, hl, by simp [ha]⟩
  intro e he
  simp only [appended, sStep] at he
  split at he
  · simp only [hc, Bool.false_eq_true, if_false, hx, List.append_assoc, List.drop_left] at he
    rcases List.mem_append.mp he with h | h
    · rcases hk e h with h | h <;> simp [h]
    · simp [sCheck_log_kind _ _ _ e h]
  · simp only [hx, List.drop_left] at he
    rcases hk e he with h | h <;> simp [h]

/-- `always` out of callsite registration means every layer said `always` -/
theorem registerT_always (lvl : Nat) (t : Tree) (h : (registerT lvl t).1 = .always) :
    ∀ l ∈ leaves t, staticInterest lvl l.kind = .always := by
  induction t with
  | leaf l => intro l' hl'; simp only [leaves, List.mem_singleton] at hl'; subst hl'; simpa [registerT] using h
  | node i o ihi iho =>
    simp only [registerT] at h
    by_cases ho : (registerT lvl o).1 = .never
    · simp [ho] at h
    · simp only [ho, if_false] at h
      by_cases hs : (registerT lvl o).1 = .sometimes
      · simp [hs] at h
      · simp only [hs, if_false] at h
        have hoa : (registerT lvl o).1 = .always := by
          cases hh : (registerT lvl o).1 <;> simp_all
        intro l hl
        simp only [leaves, List.mem_append] at hl
        rcases hl with hl | hl
        · exact ihi h l hl
        · exact iho hoa l hl

/-- **C09.meta_veto_stops_all** — ANY tree (including layers that statically refuse callsites): if any
layer's metadata check refuses, the front end's gate is closed — no event, no span reaches anyone -/
theorem meta_veto_stops_all (t : Tree) (s : NState) (mi : Nat)
    (hv : ∃ l ∈ leaves t, acceptsMeta (levelOf mi) l = false)
    (hcache : ∀ i, s.cache.lookup mi = some i → i = (registerT (levelOf mi) t).1) :
    (gate t s mi).2 = false := by
  obtain ⟨l, hl, ha⟩ := hv
  have hint : (interestFor t s mi).2 = (registerT (levelOf mi) t).1 := by
    unfold interestFor
    split
    · rename_i i hi; exact hcache i hi
    · rfl
  have hnot : (registerT (levelOf mi) t).1 ≠ .always := by
    intro hal
    have := registerT_always _ t hal l hl
    unfold acceptsMeta at ha
    cases hk : l.kind with
    | plain => simp [hk] at ha
    | metaVeto k => simp [hk, staticInterest] at this
    | eventVeto k => simp [hk] at ha
    | never k =>
      simp only [hk, decide_eq_false_iff_not] at ha
      simp [hk, staticInterest, ha] at this
  unfold gate
  dsimp only
  split
  · rfl
  · rename_i hal; exact absurd (hint ▸ hal) hnot
  · simp only
    rw [topCheck_eq _ t "enabled" (Or.inl rfl)]
    simp only [sCheck, sCheckGo_all, List.all_reverse, List.all_eq_false]
    exact ⟨l, hl, by simp [ha]⟩

/-- **C09.absent_transparent** — `None`, an empty `Vec` and `Identity` behave as if absent: in any tree
where no layer statically refuses callsites, what the real layers observe is exactly what they
observe in the stack without the absent ones — for every history -/
theorem absent_transparent (t : Tree) (h : NoNever t) (ha : AbsentPlain (leaves t)) (ops : List Op) :
    vis (run t ops).log = (sRun (present (leaves t)) ops).log := by
  rw [refines_spec t h]; exact (sRun_rel _ ha ops).2.2.symm

/-- F25 (repaired): next to a layer that statically refuses a callsite, an absent layer used to
turn the stack's `never` into `sometimes` (every `and_then` believed its inner half was the
registry), and the refusing layer was then asked `enabled` for every such event.  With the repair
the refusing layer observes the same with and without the absent layer. -/
theorem f25_repaired :
    let refusing : Tree := .leaf ⟨1, .never 4⟩
    let withNone : Tree := .node refusing (.leaf ⟨0, .plain⟩)
    vis (run withNone [.event 36]).log = vis (run refusing [.event 36]).log ∧
    vis (run refusing [.event 36]).log = [(1, "on_subscribe"), (1, "on_register_dispatch"), (1, "register_callsite")] := by
  decide

/-! ### non-vacuity -/

def t3 : Tree := .node (.node (.leaf ⟨1, .plain⟩) (.leaf ⟨2, .eventVeto 2⟩)) (.node (.leaf ⟨3, .metaVeto 4⟩) (.leaf ⟨4, .plain⟩))
example : NoNever t3 := by intro l hl k; simp [t3, leaves] at hl; rcases hl with rfl | rfl | rfl | rfl <;> simp
-- a level-5 event (mi 35): all four register, the metadata check asks 4 then 3, layer 3 vetoes: nobody else is told
example : (run t3 [.event 35]).log.drop 8 =
    [(4, "register_callsite"), (3, "register_callsite"), (2, "register_callsite"), (1, "register_callsite"),
     (4, "enabled"), (3, "enabled")] := by decide
-- a level-1 event passes every check and reaches 1, 2, 3, 4 in that order
example : ((run t3 [.event 3]).log.filter (·.2 == "on_event")).map (·.1) = [1, 2, 3, 4] := by decide

/-- **C09.reload_waits_for_the_lock** — what reload.rs must say NOW: the reloadable wrapper never POLLS its lock; a callback that
arrives while `Handle::reload` / `modify` holds the write lock waits and is delivered to the (new) value, it is not skipped -/
theorem reload_waits_for_the_lock : TM.Gen.Forwarding.reloadLocksBlocking = true := by decide

end C09
