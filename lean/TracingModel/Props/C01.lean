/-
C01 — "Caches never change what a collector's own filter decides"

  A span or event emitted through the macros is delivered to the emitting thread's current
  collector if and only if that collector's own filter accepts the callsite at that moment (it
  answered 'always' for the callsite, or 'sometimes' and its dynamic check returns true). The
  process-wide shortcuts in front of the collector (per-callsite cached interest, global maximum
  level, compile-time maximum level) may only skip work: they never suppress a delivery the
  collector would accept and never cause one it would reject, no matter which other collectors
  were created, dropped or re-evaluated before.

Model: Core/Callsite.lean on Core/Dispatch.lean (hand-written from callsite.rs, lib.rs,
macros.rs; tied to the code by the correspondence stream of ./check C01).
Specification: Spec/CoreSpec.lean (no caches, no counters).
-/
import TracingModel.Lemmas.CallsiteRefine
import TracingModel.Gen.MacroGuards

namespace C01
open TM.Dispatch TM.Callsite TM.Spec.CoreSpec TM.CoreLemmas

/-- **C01.delivery_iff** — in every state satisfying the invariant (i.e. every reachable state,
`inv_reachable`), for every thread, every callsite — including one hit for the first time — the
macro guard hands the emission to the thread's current collector exactly when the
specification says so: level ≤ STATIC and the current collector's own filter accepts the
callsite now.  `sp` is the specification state the history has produced so far. -/
theorem delivery_iff (st : Nat) (lvl : Cs → Nat) (s : CState) (sp : SState) (t : Tid) (cs : Cs)
    (hi : Inv lvl s) (hr : DRel s sp) (ht : t < s.nthreads) :
    (if (emit st lvl s t cs).2 then current (emit st lvl s t cs).1.d t else none)
      = delivered st lvl sp t cs := TM.Refine.delivery_iff st lvl s sp t cs hi hr ht

/-- **C01.inv_reachable** — the invariant (every cached interest is the `Interest::and` fold over a
basis containing every live collector; MAX_LEVEL bounds every live collector's hint; …) holds in
every state reachable by any finite history whose collectors have self-consistent filters -/
theorem inv_reachable (st : Nat) (lvl : Cs → Nat) (ops : List Op) (hsc : ∀ op ∈ ops, OpSC lvl op) :
    Inv lvl (TM.Callsite.run st lvl CState.init ops).1 :=
  (TM.Refine.inv_reachable st lvl ops hsc _ _ (Inv.init lvl) DRel.init).1

/-- **C01.refines_spec** — for EVERY finite history (any number of threads, collectors and
callsites, any order of creation, drop, install/uninstall, global install, first hits, rebuilds and
dynamic flips) the model produces exactly the outputs of the cache-free specification: every
emission is delivered to the emitting thread's current collector iff level ≤ STATIC and that
collector accepts it at that moment. -/
theorem refines_spec (st : Nat) (lvl : Cs → Nat) (ops : List Op) (hsc : ∀ op ∈ ops, OpSC lvl op) :
    (TM.Callsite.run st lvl CState.init ops).2 = (TM.Spec.CoreSpec.run st lvl SState.init ops).2 :=
  TM.Refine.refines_spec_init st lvl ops hsc

/-- **C01.never_suppresses** — a delivery the current collector would accept is never skipped -/
theorem never_suppresses (st : Nat) (lvl : Cs → Nat) (s : CState) (sp : SState) (t : Tid) (cs : Cs) (c : Cid)
    (hi : Inv lvl s) (hr : DRel s sp) (ht : t < s.nthreads)
    (hcur : currentCollector sp t = some c) (hc0 : c ≠ 0) (hl : lvl cs ≤ st) (hacc : accepts (sp.filt c) cs = true) :
    (emit st lvl s t cs).2 = true ∧ current (emit st lvl s t cs).1.d t = some c := by
  have h := delivery_iff st lvl s sp t cs hi hr ht
  simp only [delivered, hcur, hl, hacc, hc0, ne_eq, not_false_eq_true, and_self, if_true] at h
  by_cases hg : (emit st lvl s t cs).2 = true
  · simp only [hg, if_true] at h; exact ⟨hg, h⟩
  · simp [hg] at h

/-- **C01.never_causes** — nothing the current collector's filter rejects is ever delivered -/
theorem never_causes (st : Nat) (lvl : Cs → Nat) (s : CState) (sp : SState) (t : Tid) (cs : Cs) (c : Cid)
    (hi : Inv lvl s) (hr : DRel s sp) (ht : t < s.nthreads)
    (hcur : currentCollector sp t = some c) (hrej : accepts (sp.filt c) cs = false) :
    (if (emit st lvl s t cs).2 then current (emit st lvl s t cs).1.d t else none) = none := by
  rw [delivery_iff st lvl s sp t cs hi hr ht]
  simp [delivered, hcur, hrej]

/-- every copy of the filtering guard in `span!`, `event!` and `enabled!` (9 arms) has the
canonical shape the model's `emit` implements; regenerated from tracing/src/macros.rs -/
theorem macro_guard_shape : TM.Gen.MacroGuards.allCanonical = true := by decide +kernel

/-- non-vacuity: a concrete history in which a second collector turns a cached `always` into
`sometimes`, the first is dropped without a rebuild, and deliveries follow the current one -/
example :
    let lvl : Cs → Nat := fun cs => cs / 6 + 1
    let all : Filt := { stat := fun _ => .always, dyn := fun _ => true, hint := none }
    let errOnly : Filt := { stat := fun cs => if cs / 6 + 1 ≤ 1 then .always else .never, dyn := fun _ => false, hint := some 1 }
    (TM.Callsite.run 5 lvl CState.init
      [.newCollector 1 all, .setDefault 0 1, .emit 0 20, .newCollector 2 errOnly, .emit 0 20,
       .popDefault 0, .setDefault 0 2, .dropHandle 1, .emit 0 20, .emit 0 0]).2
    = [.none, .none, .delivered 0 20 (some 1), .none, .delivered 0 20 (some 1),
       .none, .none, .none, .delivered 0 20 none, .delivered 0 0 (some 2)] := by decide

end C01
