/-
Model of CONCURRENT callsite registration and collector turnover
  tracing-core/src/callsite.rs  (register, register_dispatch, rebuild_interest_cache,
                                 rebuild_interest, the dispatchers RwLock, the push-only list)
  tracing/src/lib.rs            (MacroCallsite::register: the UNREGISTERED → REGISTERING →
                                 REGISTERED compare-exchange; the loser answers `sometimes`)
as a transition system whose steps are the lock acquisitions / atomic sections of those paths.
Any number of threads: because the compare-exchange admits ONE registrant per callsite, the
progress of a registration is a per-callsite phase, and a history is simply a list of steps in the
order the (sequentially consistent) interleaving performed them.

Whether `register` keeps the read lock from "compute the interest" until after "push onto the
list" is NOT written here: it is `Gen.RegistryLocks.registerHoldsAcrossPush`, extracted from
callsite.rs on every run.  Import-free apart from the interest type and that generated fact.
-/
import TracingModel.Core.Callsite
import TracingModel.Gen.RegistryLocks

namespace TM.RegRace
open TM.Callsite (Interest Cs)

abbrev Cid := Nat

inductive Phase
  | un            -- UNREGISTERED
  | won           -- this registrant won the compare-exchange (REGISTERING)
  | locked        -- holds the dispatchers read lock
  | computed      -- interest computed and stored; read lock still held
  | computedFree  -- interest computed and stored; read lock ALREADY RELEASED (only if the lock does not span the push)
  | pushed        -- on the callsite list; read lock still held
  | released      -- on the list, lock released, not yet marked REGISTERED
  | done          -- REGISTERED
deriving DecidableEq, Repr

structure S where
  disp : List Cid                   -- REGISTRY.dispatchers (registrars)
  used : List Cid                   -- every collector ever created (a new one is a new allocation)
  alive : Cid → Bool                -- `Weak::upgrade` succeeds
  want : Cid → Cs → Interest        -- what each collector answers to `register_callsite`
  hint : Cid → Nat                  -- `max_level_hint().unwrap_or(TRACE)` as a rank
  callsites : List Cs               -- REGISTRY.callsites
  cache : Cs → Option Interest      -- each callsite's cached interest (none = 0xFF)
  phase : Cs → Phase
  maxLevel : Nat
  dirty : Bool                      -- some collector changed its answers (a reload's mutate) after the last rebuild

def S.init : S :=
  { disp := [], used := [], alive := fun _ => false, want := fun _ _ => .never, hint := fun _ => 5,
    callsites := [], cache := fun _ => none, phase := fun _ => .un, maxLevel := 0, dirty := false }

def update {α} (f : Nat → α) (k : Nat) (v : α) : Nat → α := fun x => if x = k then v else f x

/-- does this phase hold the dispatchers read lock? -/
def Phase.holdsRead : Phase → Bool
  | .locked => true | .computed => true | .pushed => true | _ => false

/-- fold of `Interest::and` over the answers of the given collectors; nobody ⇒ never -/
def fold (want : Cid → Cs → Interest) (cs : Cs) : List Cid → Interest
  | [] => .never
  | c :: rest => rest.foldl (fun i c' => i.and (want c' cs)) (want c cs)

/-- `rebuild_callsite_interest`: the registrars that upgrade -/
def live (s : S) : List Cid := s.disp.filter s.alive

/-- `rebuild_interest`: retain live registrars, recompute every callsite ON THE LIST, `set_max` -/
def rebuild (s : S) : S :=
  let lv := live s
  { s with disp := lv,
           cache := fun cs => if cs ∈ s.callsites then some (fold s.want cs lv) else s.cache cs,
           maxLevel := lv.foldl (fun m c => if s.hint c > m then s.hint c else m) 0,
           dirty := false }

inductive Step
  | cas (cs : Cs)                     -- MacroCallsite::register: compare_exchange(UNREGISTERED, REGISTERING)
  | lock (cs : Cs)                    -- callsite::register: dispatchers.read()
  | compute (cs : Cs)                 -- rebuild_callsite_interest + set_interest
  | push (cs : Cs)                    -- callsites.push
  | unlock (cs : Cs)                  -- the read guard is dropped
  | done (cs : Cs)                    -- store(REGISTERED)
  | newDispatch (c : Cid) (w : Cs → Interest) (h : Nat)   -- Dispatch::new → register_dispatch (write lock)
  | rebuildCache                      -- rebuild_interest_cache (write lock)
  | dropCollector (c : Cid)           -- last strong reference gone; NO rebuild
  | mutate (c : Cid) (w : Cs → Interest) (h : Nat)   -- reload::Handle::modify: the value changes under ITS lock; the rebuild comes later
deriving Inhabited

/-- a writer may enter only when no registration holds the read lock -/
def noReaders (s : S) (U : List Cs) : Bool := U.all fun cs => !(s.phase cs).holdsRead

/-- one step; a step that is not enabled leaves the state unchanged (`none`: blocked / not applicable).
`holdAcross` = the read lock spans compute AND push.  `U` = the callsites that exist in the program. -/
def step (holdAcross : Bool) (U : List Cs) (s : S) : Step → Option S
  | .cas cs => if s.phase cs = .un then some { s with phase := update s.phase cs .won } else none
  | .lock cs => if s.phase cs = .won then some { s with phase := update s.phase cs .locked } else none
  | .compute cs =>
    if s.phase cs = .locked then
      some { s with cache := update s.cache cs (some (fold s.want cs (live s))),
                    phase := update s.phase cs (if holdAcross then .computed else .computedFree) }
    else none
  | .push cs =>
    if s.phase cs = .computed then
      some { s with callsites := cs :: s.callsites, phase := update s.phase cs .pushed }
    else if s.phase cs = .computedFree then
      some { s with callsites := cs :: s.callsites, phase := update s.phase cs .released }
    else none
  | .unlock cs => if s.phase cs = .pushed then some { s with phase := update s.phase cs .released } else none
  | .done cs => if s.phase cs = .released then some { s with phase := update s.phase cs .done } else none
  | .newDispatch c w h =>
    if noReaders s U ∧ c ∉ s.used then
      some (rebuild { s with disp := s.disp ++ [c], used := c :: s.used, alive := update s.alive c true,
                             want := update s.want c w, hint := update s.hint c h })
    else none
  | .rebuildCache => if noReaders s U then some (rebuild s) else none
  | .dropCollector c => some { s with alive := update s.alive c false }
  | .mutate c w h => if c ∈ s.used then some { s with want := update s.want c w, hint := update s.hint c h, dirty := true } else none

/-- run a schedule; blocked steps are skipped (the thread simply has not moved) -/
def run (holdAcross : Bool) (U : List Cs) : S → List Step → S
  | s, [] => s
  | s, st :: rest => run holdAcross U ((step holdAcross U s st).getD s) rest

/-- nothing is in flight -/
def quiescent (s : S) (U : List Cs) : Bool := U.all fun cs => s.phase cs = .un || s.phase cs = .done

/-- what `MacroCallsite::interest()` answers a thread right now: the stored interest as soon as
there is one (the fast path does not look at the registration state); otherwise a thread that
loses the compare-exchange race answers `sometimes` -/
def observedInterest (s : S) (cs : Cs) : Option Interest :=
  match s.cache cs with
  | some i => some i
  | none => if s.phase cs = .un then none else some .sometimes

end TM.RegRace
