/- driver glue for C09: `N <stack> ;; ops` -> the full notification log -/
import TracingModel.Core.Notify
import TracingModel.Spec.NotifySpec

namespace TM.NotifyDriver
open TM.Notify TM.NotifySpec

/-- `None`, an empty `Vec`, `Identity`: a layer numbered 0 that is always interested, accepts
everything and records nothing -/
def absent : Tree := .leaf { n := 0, kind := .plain }

def parseKind (leaf : String) : Option Layer :=
  match leaf.toList with
  | 'P' :: n => (String.ofList n).toNat?.map fun n => { n := n, kind := .plain }
  | c :: rest =>
    match (String.ofList rest).splitOn "l" with
    | [n, k] =>
      match n.toNat?, k.toNat? with
      | some n, some k =>
        if c == 'M' then some { n := n, kind := .metaVeto k }
        else if c == 'E' then some { n := n, kind := .eventVeto k }
        else if c == 'N' then some { n := n, kind := .never k }
        else none
      | _, _ => none
    | _ => none
  | [] => none

/-- the last `:`-separated part is the layer, the parts before it name wrappers, outermost first:
`b` Box, `o` Some, `v` one-element Vec, `r` reload — pass-through, erased (Props/C09 `passthrough_*`);
`i` = `.and_then(Identity)` — a `Layered` with an absent outer layer -/
def parseLeaf (t : String) : Option Tree :=
  let parts := t.splitOn ":"
  match parts.getLast? with
  | none => none
  | some leaf =>
    match parseKind leaf with
    | none => none
    | some l =>
      parts.dropLast.reverse.foldlM (fun acc p =>
        if p == "i" then some (.node acc absent)
        else if ["b", "o", "v", "r"].contains p then some acc
        else none) (.leaf l)

def join (a b : Option Tree) : Option Tree :=
  match a, b with
  | some x, some y => some (.node x y)
  | some x, none => some x
  | none, y => y

/-- items up to a closing `)` or the end: `acc.and_then(item)` left to right; `none` / `empty` are absent -/
def parseItems : Nat → List String → Option Tree → Option (Option Tree × List String)
  | 0, _, _ => none
  | _ + 1, [], acc => some (acc, [])
  | fuel + 1, t :: rest, acc =>
    if t == ")" then some (acc, rest)
    else if t == "none" || t == "empty" then parseItems fuel rest (join acc (some absent))
    else if t == "(" then
      match parseItems fuel rest none with
      | some (g, rest') => parseItems fuel rest' (join acc g)
      | none => none
    else
      match parseLeaf t with
      | some l => parseItems fuel rest (join acc (some l))
      | none => none

def parseStack (toks : List String) : Option (Option Tree) :=
  let toks := match toks with
    | "@box" :: r => r
    | "@arc" :: r => r
    | r => r
  match parseItems (toks.length + 1) toks none with
  | some (t, []) => some t
  | _ => none

def parseOp : List String → Option Op
  | ["ev", mi, _] => mi.toNat?.map .event
  | ["sp", k, mi, _] => do pure (.span (← k.toNat?) (← mi.toNat?))
  | ["en", k] => k.toNat?.map (.life .enter)
  | ["ex", k] => k.toNat?.map (.life .exit)
  | ["rc", k] => k.toNat?.map (.life .record)
  | ["cl", k] => k.toNat?.map .close
  | ["ff", k, j] => do pure (.follows (← k.toNat?) (← j.toNat?))
  | _ => none

def splitOps : List String → List String → List (List String)
  | [], cur => if cur.isEmpty then [] else [cur.reverse]
  | t :: rest, cur => if t == ";" then (if cur.isEmpty then splitOps rest [] else cur.reverse :: splitOps rest []) else splitOps rest (t :: cur)

def shortName (m : String) : String :=
  if m == "on_subscribe" then "subscribe" else if m == "on_register_dispatch" then "dispatch"
  else if m == "register_callsite" then "callsite" else if m == "on_follows_from" then "follows"
  else if m == "on_event" then "event" else if m == "on_new_span" then "new_span"
  else if m == "on_enter" then "enter" else if m == "on_exit" then "exit"
  else if m == "on_record" then "record" else if m == "on_close" then "close" else m

def showLog (l : List Entry) : String :=
  let l := vis l
  if l.isEmpty then "-" else ",".intercalate (l.map fun e => s!"{e.1}:{shortName e.2}")

def parseOps (ops : List String) : Option (List Op) := (splitOps ops []).mapM parseOp

def parseCase (toks : List String) : Option (Option Tree × List Op) :=
  match toks with
  | "N" :: rest =>
    let stk := rest.takeWhile (· ≠ ";;")
    let ops := (rest.dropWhile (· ≠ ";;")).drop 1
    match parseStack stk, parseOps ops with
    | some t, some ops => some (t, ops)
    | _, _ => none
  | _ => none

def logOf (t : Option Tree) (ops : List Op) : String :=
  match t with
  | some t => showLog (run t ops).log
  | none => "-"

/-- `W <stackA> ;; <stackB> ;; ops`: both logs -/
def modelPair (rest : List String) : String :=
  let a := rest.takeWhile (· ≠ ";;")
  let r1 := (rest.dropWhile (· ≠ ";;")).drop 1
  let b := r1.takeWhile (· ≠ ";;")
  let ops := (r1.dropWhile (· ≠ ";;")).drop 1
  match parseStack a, parseStack b, parseOps ops with
  | some ta, some tb, some ops => s!"{logOf ta ops} || {logOf tb ops}"
  | _, _, _ => "bad-case"

def model (toks : List String) : String :=
  match toks with
  | "W" :: rest => modelPair rest
  | _ =>
    match parseCase toks with
    | some (t, ops) => logOf t ops
    | none => "bad-case"

def hasNever (t : Tree) : Bool := (leaves t).any fun l => match l.kind with | .never _ => true | _ => false

def spec (toks : List String) : String :=
  match parseCase toks with
  | some (some t, ops) => if hasNever t then "no-spec" else showLog (sRun (present (leaves t)) ops).log
  | some (none, _) => "-"
  | none => "bad-case"

end TM.NotifyDriver
