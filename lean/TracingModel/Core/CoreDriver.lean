/- driver glue for C01/C02/C04: history line -> model outputs / spec outputs.  Import-free. -/
import TracingModel.Core.Callsite
import TracingModel.Spec.CoreSpec
import TracingModel.Core.Wire

namespace TM.CoreDriver
open TM.Dispatch TM.Callsite TM.Wire

/-- callsite pool layout of the harness: index i ↦ level rank i / 6 + 1 (5 levels × 3 targets × span/event) -/
def poolLvl (cs : Cs) : Nat := cs / 6 + 1

def interestOfChar : Char → Interest
  | 'a' => .always
  | 's' => .sometimes
  | _ => .never

def filtOf (stat dyn hint : String) : Filt :=
  let st := stat.toList.toArray
  let dy := dyn.toList.toArray
  { stat := fun cs => interestOfChar (st.getD cs 'n'),
    dyn := fun cs => dy.getD cs '0' == '1',
    hint := hint.toNat? }

/-- one op from its tokens; `pp t k` (unwinding through k guards) is k pops -/
def parseOp : List String → Option (List Op × Bool)   -- Bool: does the op print `cur`
  | ["ts"] => some ([.threadStart], false)
  | ["nc", c, st, dy, h] => c.toNat?.map fun c => ([.newCollector c (filtOf st dy h)], false)
  | ["dh", c] => c.toNat?.map fun c => ([.dropHandle c], false)
  | ["sd", t, c] => do let t ← t.toNat?; let c ← c.toNat?; pure ([.setDefault t c], false)
  | ["pd", t] => t.toNat?.map fun t => ([.popDefault t], false)
  | ["pp", t, k] => do let t ← t.toNat?; let k ← k.toNat?; pure (List.replicate k (.popDefault t), false)
  | ["sg", _t, c] => c.toNat?.map fun c => ([.setGlobal c], false)
  | ["em", t, cs] => do let t ← t.toNat?; let cs ← cs.toNat?; pure ([.emit t cs], false)
  | ["sp", t, cs] => do let t ← t.toNat?; let cs ← cs.toNat?; pure ([.emit t cs], false)
  | ["rb"] => some ([.rebuild], false)
  | ["fl", c, cs] => do let c ← c.toNat?; let cs ← cs.toNat?; pure ([.flip c cs], false)
  | ["cur"] => some ([], true)
  | _ => none

def splitOps (toks : List String) : List (List String) :=
  let rec go (acc cur : List String) (out : List (List String)) : List String → List (List String)
    | [] => (if cur.isEmpty then out else cur.reverse :: out).reverse
    | ";" :: rest => go acc [] (if cur.isEmpty then out else cur.reverse :: out) rest
    | t :: rest => go acc (t :: cur) out rest
  go [] [] [] toks

def outTok : Out → Option String
  | .none => none
  | .setGlobal ok => some (if ok then "ok" else "err")
  | .delivered _ _ (some c) => some s!"c{c}"
  | .delivered _ _ Option.none => some "-"

/-- `static=<n> ; op ; op ; …` -/
def model (toks : List String) : String :=
  match toks with
  | st :: ";" :: rest =>
    match (st.drop 7).toNat? with
    | none => "bad-case"
    | some static_ =>
      let ops := splitOps rest
      let rec go (s : CState) (acc : List String) : List (List String) → String
        | [] => " ".intercalate acc.reverse
        | o :: os =>
          match parseOp o with
          | none => "bad-op"
          | some (ops, pcur) =>
            let r := run static_ poolLvl s ops
            let outs := r.2.filterMap outTok
            let acc := outs.reverse ++ acc
            let acc := if pcur then toString r.1.maxLevel :: acc else acc
            go r.1 acc os
      go CState.init [] ops
  | _ => "bad-case"

/-- what the specification demands for the same history (`cur` is not specified: printed as `*`) -/
def spec (toks : List String) : String :=
  match toks with
  | st :: ";" :: rest =>
    match (st.drop 7).toNat? with
    | none => "bad-case"
    | some static_ =>
      let ops := splitOps rest
      let rec go (s : TM.Spec.CoreSpec.SState) (acc : List String) : List (List String) → String
        | [] => " ".intercalate acc.reverse
        | o :: os =>
          match parseOp o with
          | none => "bad-op"
          | some (ops, pcur) =>
            let r := TM.Spec.CoreSpec.run static_ poolLvl s ops
            let outs := r.2.filterMap outTok
            let acc := outs.reverse ++ acc
            let acc := if pcur then "*" :: acc else acc
            go r.1 acc os
      go TM.Spec.CoreSpec.SState.init [] ops
  | _ => "bad-case"

end TM.CoreDriver
