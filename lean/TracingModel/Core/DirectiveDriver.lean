/- driver glue for C11 (static part): directive strings over the fixed metadata metaUniverse -/
import TracingModel.Core.Directive
import TracingModel.Core.Wire
import TracingModel.Core.FilterExpr

namespace TM.DirectiveDriver
open TM.Directive TM.Wire
open TM (Str ofString)

def TARGETS : List String := ["app", "application", "app::db", "app::db::pool", "other", "", "ap"]
def FIELDSETS : List (List String) := [[], ["bar"], ["bar", "baz"], ["msg"]]

def metaUniverse : List Meta :=
  TARGETS.flatMap fun t => [1, 2, 3, 4, 5].flatMap fun r => [false, true].flatMap fun ev =>
    FIELDSETS.map fun fs => { target := ofString t, level := r, isEvent := ev, fields := fs.map ofString }

def strOfHex (h : String) : Option Str := (unhex h).map ofString

def hexOfStr (s : Str) : String :=
  hex (String.ofList (s.map Char.ofNat))

def bits (s : DSet) : String :=
  String.ofList (metaUniverse.map fun m => if enabled s m then 'a' else 'n')

def weBits (s : DSet) : String :=
  String.ofList (TARGETS.flatMap fun t => [1, 2, 3, 4, 5].map fun r => if wouldEnable s (ofString t) r then '1' else '0')

def dsetEq (a b : DSet) : Bool := a.dirs == b.dirs && a.maxLevel == b.maxLevel

def model (toks : List String) : String :=
  match toks with
  | ["T", h] =>
    match strOfHex h with
    | none => "bad-case"
    | some s =>
      match parseTargets s with
      | none => "err"
      | some ds =>
        let disp := displayTargets ds
        let re := match parseTargets disp with | some d2 => dsetEq d2 ds | none => false
        s!"ok {hexOfStr disp} {bits ds} {weBits ds} {ds.maxLevel} {if re then 1 else 0}"
  | ["E", h] =>
    match strOfHex h with
    | none => "bad-case"
    | some s =>
      match parseEnv s with
      | none => "err"
      | some ds => s!"ok {bits ds} {ds.maxLevel}"
  | _ => "bad-case"

end TM.DirectiveDriver

namespace TM.DirectiveDriver
open TM.Directive TM.Wire
open TM (Str ofString)
open TM.FilterExpr TM.FilterExpr.FExpr
open TM.Callsite (Interest)

def containsSub (hay needle : Str) : Bool :=
  match hay with
  | [] => needle.isEmpty
  | _ :: rest => isPrefix needle hay || containsSub rest needle

def predOf (pred k : Nat) (m : Meta) : Bool :=
  match pred with
  | 0 => decide (m.level ≤ k)
  | 1 => containsSub m.target (ofString "db") && decide (m.level ≤ k)
  | _ => !m.isEvent && decide (m.level ≤ k)

def digit (c : Char) : Nat := c.toNat - 48

def hintOf (s : String) : Option Nat := if s == "-" then none else s.toNat?

/-- parse one prefix expression; returns it and the remaining tokens -/
def parseExpr : Nat → List String → Option (FExpr × List String)
  | 0, _ => none
  | _ + 1, [] => none
  | fuel + 1, t :: rest =>
    match t.toList with
    | 'L' :: l => (String.ofList l).toNat?.map fun l => (level l, rest)
    | 'T' :: h => do
      let s ← strOfHex (String.ofList h)
      let ds ← parseTargets s
      pure (targets ds, rest)
    | 'E' :: h => do
      let s ← strOfHex (String.ofList h)
      let ds ← parseEnv s          -- static directives only
      pure (targets ds, rest)
    | 'F' :: p :: k :: 'h' :: hint => some (fn (predOf (digit p) (digit k)) (hintOf (String.ofList hint)), rest)
    | 'D' :: k :: 'h' :: r =>
      let hs := String.ofList (r.takeWhile (· ≠ 'c'))
      let cs := String.ofList ((r.dropWhile (· ≠ 'c')).drop 1)
      let kk := digit k
      let g : Option (Meta → Interest) := if cs == "-" then none else some (fun m => if m.level ≤ kk then .sometimes else .never)
      some (dyn (fun m c => c == 1 && decide (m.level ≤ kk)) (hintOf hs) g, rest)
    | ['K', ti] =>
      let tgt : Str := ofString (TARGETS.getD (digit ti) "")
      some (dyn (fun m c => m.target != tgt || c == 1) none
                (some (fun m => if m.target = tgt then .sometimes else .always)), rest)
    | ['N'] => some (optNone, rest)
    | ['S'] => (parseExpr fuel rest).map fun (e, r) => (optSome e, r)
    | ['&'] => do
      let (a, r1) ← parseExpr fuel rest
      let (b, r2) ← parseExpr fuel r1
      pure (conj a b, r2)
    | ['|'] => do
      let (a, r1) ← parseExpr fuel rest
      let (b, r2) ← parseExpr fuel r1
      pure (disj a b, r2)
    | ['!'] => (parseExpr fuel rest).map fun (e, r) => (neg e, r)
    | ['R'] => (parseExpr fuel rest).map fun (e, r) => (reload e, r)
    | ['B'] => (parseExpr fuel rest).map fun (e, r) => (boxed e, r)
    | _ => none

def ichar : Interest → Char | .always => 'a' | .sometimes => 's' | .never => 'n'

def exprModel (toks : List String) : String :=
  match parseExpr (toks.length + 1) toks with
  | some (e, []) =>
    let cs := String.ofList (metaUniverse.map fun m => ichar (callsiteF e m))
    let h := match hintF e with | some l => toString l | none => "-"
    let en (c : Nat) := String.ofList (metaUniverse.map fun m => if enabledF e m c then '1' else '0')
    s!"ok {cs} {h} {en 0} {en 1}"
  | _ => "bad-case"

def model2 (toks : List String) : String :=
  match toks with
  | "X" :: rest => exprModel rest
  | _ => model toks

end TM.DirectiveDriver
