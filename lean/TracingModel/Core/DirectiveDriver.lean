/- driver glue for C11 (static part): directive strings over the fixed metadata metaUniverse -/
import TracingModel.Core.Directive
import TracingModel.Core.Wire

namespace TM.DirectiveDriver
open TM.Directive TM.Wire
open TM (Str ofString)

def TARGETS : List String := ["app", "application", "app::db", "app::db::pool", "other", "", "ap"]
def FIELDSETS : List (List String) := [[], ["bar"], ["bar", "baz"], ["msg"]]

def metaUniverse : List Meta :=
  TARGETS.flatMap fun t => [1, 2, 3, 4, 5].flatMap fun r => [false, true].flatMap fun ev =>
    FIELDSETS.map fun fs => { target := ofString t, level := r, isEvent := ev, fields := fs.map ofString }

def strOfHex (h : String) : Option Str := (unhex h).map ofString

def hexOfStr (s : Str) : String :=
  hex (String.ofList (s.map Char.ofNat))

def bits (s : DSet) : String :=
  String.ofList (metaUniverse.map fun m => if enabled s m then 'a' else 'n')

def weBits (s : DSet) : String :=
  String.ofList (TARGETS.flatMap fun t => [1, 2, 3, 4, 5].map fun r => if wouldEnable s (ofString t) r then '1' else '0')

def dsetEq (a b : DSet) : Bool := a.dirs == b.dirs && a.maxLevel == b.maxLevel

def model (toks : List String) : String :=
  match toks with
  | ["T", h] =>
    match strOfHex h with
    | none => "bad-case"
    | some s =>
      match parseTargets s with
      | none => "err"
      | some ds =>
        let disp := displayTargets ds
        let re := match parseTargets disp with | some d2 => dsetEq d2 ds | none => false
        s!"ok {hexOfStr disp} {bits ds} {weBits ds} {ds.maxLevel} {if re then 1 else 0}"
  | ["E", h] =>
    match strOfHex h with
    | none => "bad-case"
    | some s =>
      match parseEnv s with
      | none => "err"
      | some ds => s!"ok {bits ds} {ds.maxLevel}"
  | _ => "bad-case"

end TM.DirectiveDriver
