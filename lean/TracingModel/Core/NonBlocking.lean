/-
Model of the non-blocking writer (tracing-appender/src/non_blocking.rs, worker.rs):
a bounded FIFO of `Line` / `Shutdown` messages, producers (`write`: lossy = try_send and count a
failure; non-lossy = blocking send, an error once the channel is disconnected), the worker
(`work()`: blocking recv, then try_recv until empty, write_all per line — an error returns before
the flush —, flush, exit on Shutdown / Disconnected) and the guard's drop (Shutdown behind
everything, rendezvous).  The underlying writer's faults are scripted per call.

Two facts are NOT written here but extracted from the source on every run
(Gen/NonBlockingFacts.lean): whether the lossy path counts EVERY failed try_send, and whether a
failed flush can hide that the worker has seen Shutdown.  Timeouts are modelled as "do not fire".
Import-free apart from those facts.
-/
import TracingModel.Gen.NonBlockingFacts

namespace TM.NonBlocking
open TM.Gen.NonBlockingFacts

inductive Msg
  | line (id : Nat)
  | shutdown
deriving DecidableEq, Repr

/-- where the worker thread is -/
inductive WPhase
  | idle                              -- blocked in `recv()` on an empty queue
  | atWrite (id : Nat) (first : Bool) -- holds line `id`, inside `write_all` (first = came from the blocking recv)
  | atFlush (terminal : Bool)         -- inside `flush`; terminal = this batch saw Shutdown / Disconnected
  | exited                            -- dropped the writer and left
  | lostShutdown                      -- back in `recv()` after swallowing Shutdown (only if a flush error masks it)
deriving DecidableEq, Repr

structure S where
  cap : Nat
  lossy : Bool
  queue : List Msg            -- head = oldest
  w : WPhase
  offered : Nat
  accepted : List Nat         -- ids in the order the channel accepted them
  taken : List Nat            -- ids in the order the worker dequeued them
  outcomes : List (Nat × Bool)  -- (id, write succeeded) in the order the underlying writer finished them
  acceptedAtDrop : Nat        -- how many lines had been accepted when the guard's Shutdown was enqueued
  dropped : Nat               -- ErrorCounter
  refused : Nat               -- non-lossy writes that returned an error (channel disconnected)
  guardDropped : Bool
  writerDropped : Bool
  flushedAfterLastWrite : Bool
  sawShutdown : Bool          -- the worker has dequeued the guard's Shutdown
deriving Repr

def S.init (cap : Nat) (lossy : Bool) : S :=
  { cap := cap, lossy := lossy, queue := [], w := .idle, offered := 0, accepted := [], taken := [], outcomes := [], acceptedAtDrop := 0,
    dropped := 0, refused := 0, guardDropped := false, writerDropped := false, flushedAfterLastWrite := true, sawShutdown := false }

/-- the worker, blocked in recv, takes the head as soon as there is one -/
def wake (s : S) : S :=
  match s.w, s.queue with
  | .idle, .line id :: rest => { s with queue := rest, w := .atWrite id true, taken := s.taken ++ [id] }
  | .idle, .shutdown :: rest => { s with queue := rest, w := .atFlush true, sawShutdown := true }
  | .lostShutdown, .line id :: rest => { s with queue := rest, w := .atWrite id true, taken := s.taken ++ [id] }
  | .lostShutdown, .shutdown :: rest => { s with queue := rest, w := .atFlush true, sawShutdown := true }
  | _, _ => s

/-- the try_recv loop after a successful write -/
def next (s : S) : S :=
  match s.queue with
  | .line id :: rest => { s with queue := rest, w := .atWrite id false, taken := s.taken ++ [id] }
  | .shutdown :: rest => { s with queue := rest, w := .atFlush true, sawShutdown := true }
  | [] => { s with w := .atFlush false }

/-- the two extracted facts the behaviour depends on -/
structure Facts where
  countsEveryFailure : Bool
  flushMasksTerminal : Bool

/-- what the source says now -/
def codeFacts : Facts := { countsEveryFailure := lossyCountsEveryFailure, flushMasksTerminal := flushErrorMasksTerminal }

def written (s : S) : List Nat := (s.outcomes.filter (·.2)).map (·.1)
def failed (s : S) : List Nat := (s.outcomes.filter (!·.2)).map (·.1)

inductive Op
  | offer (id : Nat)             -- some producer calls `write` with line `id`
  | writeDone (ok : Bool)        -- the underlying writer finishes the pending `write_all`
  | flushDone (ok : Bool)        -- the underlying writer finishes the pending `flush`
  | dropGuard                    -- WorkerGuard dropped: Shutdown is enqueued (when there is room)
deriving Repr

inductive Out
  | accepted | dropped | refused | blocked
  | wrote (id : Nat) (ok : Bool)
  | flushed (ok : Bool) (exited : Bool)
  | none
deriving DecidableEq, Repr

def disconnected (s : S) : Bool := s.w = .exited

def step (F : Facts) (s : S) : Op → S × Out
  | .offer id =>
    let s := { s with offered := s.offered + 1 }
    if disconnected s then
      -- try_send / send fail: Disconnected
      if s.lossy then (if F.countsEveryFailure then { s with dropped := s.dropped + 1 } else s, .dropped)
      else ({ s with refused := s.refused + 1 }, .refused)
    else if s.queue.length < s.cap then
      (wake { s with queue := s.queue ++ [.line id], accepted := s.accepted ++ [id] }, .accepted)
    else if s.lossy then ({ s with dropped := s.dropped + 1 }, .dropped)     -- try_send: Full
    else ({ s with offered := s.offered - 1 }, .blocked)                      -- the producer waits: not offered yet
  | .writeDone ok =>
    match s.w with
    | .atWrite id _ =>
      if ok then (next { s with outcomes := s.outcomes ++ [(id, true)], flushedAfterLastWrite := false }, .wrote id true)
      else
        -- `write_all(..)?`: work() returns Err before the flush; the loop calls work() again
        (wake { s with outcomes := s.outcomes ++ [(id, false)], w := .idle }, .wrote id false)
    | _ => (s, .none)
  | .flushDone ok =>
    match s.w with
    | .atFlush terminal =>
      let s1 := if ok then { s with flushedAfterLastWrite := true } else s
      if terminal then
        if ok || !F.flushMasksTerminal then ({ s1 with w := .exited, writerDropped := true }, .flushed ok true)
        else (wake { s1 with w := .lostShutdown }, .flushed ok false)     -- the Shutdown message is gone; the worker waits again
      else (wake { s1 with w := .idle }, .flushed ok false)
    | _ => (s, .none)
  | .dropGuard =>
    if s.guardDropped || disconnected s then (s, .none)
    else if s.queue.length < s.cap then (wake { s with queue := s.queue ++ [.shutdown], guardDropped := true, acceptedAtDrop := s.accepted.length }, .none)
    else (s, .blocked)

def run (F : Facts) (s : S) (ops : List Op) : S := ops.foldl (fun s op => (step F s op).1) s

def queueLines (q : List Msg) : List Nat := q.filterMap fun | .line id => some id | .shutdown => none

end TM.NonBlocking
