/-
Model of what the span / event macros present to a collector's visitor
  tracing/src/macros.rs      (fieldset! / valueset!: names in declaration order, a format-string
                              message FIRST; the value expressions sit inside the enabled branch)
  tracing-core/src/field.rs  (ValueSet::record visits the `Some` values; the typed `Value` impls)
The type → visitor-method table is `Gen.ValueTable` (extracted from field.rs on every run).
Integers are mathematical integers with the ranges of their Rust types; `as` casts wrap.
Import-free apart from the generated table.
-/
import TracingModel.Gen.ValueTable

namespace TM.Macros
open TM.Gen.ValueTable

abbrev Str := String      -- hex-encoded texts travel as they are

def bits : String → Option (Bool × Nat)      -- (signed, width)
  | "u8" => some (false, 8) | "u16" => some (false, 16) | "u32" => some (false, 32) | "u64" => some (false, 64)
  | "usize" => some (false, 64) | "u128" => some (false, 128)
  | "i8" => some (true, 8) | "i16" => some (true, 16) | "i32" => some (true, 32) | "i64" => some (true, 64)
  | "isize" => some (true, 64) | "i128" => some (true, 128)
  | _ => none

def inRange (ty : String) (v : Int) : Bool :=
  match bits ty with
  | some (false, w) => decide (0 ≤ v) && decide (v < 2 ^ w)
  | some (true, w) => decide (-(2 ^ (w - 1)) ≤ v) && decide (v < 2 ^ (w - 1))
  | none => false

/-- `v as tgt` for integer types: reduce modulo 2^w into the target's range -/
def castTo (tgt : String) (v : Int) : Int :=
  match bits tgt with
  | some (false, w) => v % (2 ^ w)
  | some (true, w) => (v + 2 ^ (w - 1)) % (2 ^ w) - 2 ^ (w - 1)
  | none => v

/-- one field as written in the macro call -/
inductive FVal
  | int (ty : String) (nonzero : Bool) (v : Int)
  | bool (b : Bool)
  | float (ty : String) (asF64Bits : String)    -- the f64 the value converts to (IEEE widening is exact), as hex bits
  | str (owned : Bool) (hex : Str)
  | bytes (hex : Str)
  | error (hexMsg : Str)
  | display (hexText : Str)                      -- `%expr`
  | debug (hexText : Str)                        -- `?expr`
  | message (hexText : Str)                      -- the trailing format string (with its arguments formatted)
  | empty
  | wrapped (inner : FVal)                       -- Wrapping(_), &_, Box<_>: delegate
deriving Repr

structure FieldD where
  name : Str          -- hex of the declared name ("message" for the format string)
  val : FVal
  ticks : Nat         -- how many counted sub-expressions the field's value contains

def methodShort (m : String) : String := (m.drop 7).toString      -- record_u64 → u64

def lookupPrim (ty : String) : Option (String × String) :=
  (prim.find? (fun r => r.1 == ty)).map fun r => (r.2.1, r.2.2)
def lookupHand (ty : String) : Option String := (hand.find? (fun r => r.1 == ty)).map (·.2)

/-- what the visitor is shown for one value: (method, rendered value); `none` = not visited -/
def present : FVal → Option (String × String)
  | .int ty nz v =>
    if nz && noNonZeroFor.contains ty then none else
    match lookupPrim ty with
    | some (m, tgt) =>
      let shown := if castArmIsAs && tgt != ty then castTo tgt v else v
      if (nz && nonzeroArmPassesGet) || (!nz && normalArmPassesValue) then some (methodShort m, toString shown) else none
    | none => none
  | .bool b => (lookupPrim "bool").map fun (m, _) => (methodShort m, if b then "1" else "0")
  | .float ty b => (lookupPrim ty).map fun (m, _) => (methodShort m, b)
  | .str owned h => (lookupHand (if owned then "String" else "str")).map fun m => (methodShort m, h)
  | .bytes h => (lookupHand "bytes").map fun m => (methodShort m, h)
  | .error h => (lookupHand "Error").map fun m => (methodShort m, h)
  | .display h => if displayValueDebugIsDisplay then (lookupHand "DisplayValue").map fun m => (methodShort m, h) else none
  | .debug h => (lookupHand "DebugValue").map fun m => (methodShort m, h)
  | .message h => (lookupHand "Arguments").map fun m => (methodShort m, h)
  | .empty => if lookupHand "Empty" == some "none" then none else some ("?", "?")
  | .wrapped inner => present inner

def isMessage : FVal → Bool
  | .message _ => true
  | _ => false

/-- `fieldset!` / `valueset!`: the format-string message (written last) is field number one -/
def ordered (fs : List FieldD) : List FieldD :=
  fs.filter (fun f => isMessage f.val) ++ fs.filter (fun f => !isMessage f.val)

/-- what the visitor sees: every set field once, under its name, in order -/
def visited (fs : List FieldD) : List (Str × String × String) :=
  (ordered fs).filterMap fun f => (present f.val).map fun (m, v) => (f.name, m, v)

inductive Regime | enable | staticNever | dynamicFalse | cap (lvl : Nat)
deriving Repr

def enabledUnder (r : Regime) (level : Nat) : Bool :=
  match r with
  | .enable => true
  | .staticNever => false
  | .dynamicFalse => false
  | .cap l => decide (level ≤ l)

/-- one macro invocation under a regime: what is visited, and how often each counted expression ran -/
def invoke (r : Regime) (level : Nat) (fs : List FieldD) : List (Str × String × String) × List Nat :=
  let n := (fs.map (·.ticks)).foldl (· + ·) 0
  if enabledUnder r level then (visited fs, List.replicate n 1) else ([], List.replicate n 0)

end TM.Macros
