/- driver glue for the C08 tree-hint stream: `H <stack with wrappers / none / empty>` -> the hint the stack publishes -/
import TracingModel.Core.TreeHint
import TracingModel.Core.FilteringDriver

namespace TM.TreeHintDriver
open TM.TreeHint TM.Reload TM.Filtering TM.FilterExpr TM.Directive TM.DirectiveDriver

/-- prefixes of a layer token name wrappers, outermost first: the last prefix is applied first -/
def applyWraps (prefixes : List String) (v : View) : View :=
  prefixes.reverse.foldl (fun v p => match p.toList with | [c] => wrap c v | _ => v) v

/-- the operands (innermost first) and the stack with the absent subscribers and wrappers erased -/
def parseViews : Nat → Nat → List String → Option (List View × Stack)
  | 0, _, _ => none
  | _ + 1, _, [] => some ([], [])
  | fuel + 1, fid, t :: rest =>
    if t == "none" || t == "empty" then do
      let (vs, st) ← parseViews fuel fid rest
      pure (noneV :: vs, st)
    else
      let parts := t.splitOn ":"
      let base := parts.getLast?.getD t
      let prefixes := parts.dropLast
      match base.toList with
      | 'P' :: n => do
        let n ← (String.ofList n).toNat?
        let (vs, st) ← parseViews fuel fid rest
        pure (applyWraps prefixes plainV :: vs, .plain n :: st)
      | 'G' :: leaf => do
        let (e, _) ← parseExpr 4 [String.ofList leaf]
        let (vs, st) ← parseViews fuel fid rest
        pure (applyWraps prefixes (globV (hintF e)) :: vs, .glob e :: st)
      | 'F' :: n => do
        let n ← (String.ofList n).toNat?
        let body := rest.takeWhile (· ≠ ".")
        let after := (rest.dropWhile (· ≠ ".")).drop 1
        let (e, left) ← parseExpr (body.length + 1) body
        if !left.isEmpty then none
        let (vs, st) ← parseViews fuel (fid + 1) after
        pure (applyWraps prefixes (filtV (hintF e)) :: vs, .filt fid e n :: st)
      | _ => none

def hintOf (vs : List View) : Nat := (stackHintV vs).getD 5

def model (toks : List String) : String :=
  match toks with
  | "H" :: stk =>
    (match parseViews (stk.length + 1) 0 stk with
     | some (vs, _) => if vs.isEmpty then "bad-stack" else s!"h:{hintOf vs}"
     | none => "bad-stack")
  | _ => "bad-case"

/-- the same hint, marked when it is NOT an upper bound on what some layer of the stack would receive (over the metadata
universe, both contexts) -/
def spec (toks : List String) : String :=
  match toks with
  | "H" :: stk =>
    (match parseViews (stk.length + 1) 0 stk with
     | some (vs, st) =>
       if vs.isEmpty then "bad-stack" else
       let h := hintOf vs
       let sound := metaUniverse.all fun m => [0, 1].all fun c => (shouldReceive st m c).isEmpty || decide (m.level ≤ h)
       if sound then s!"h:{h}" else s!"h:{h}!unsound"
     | none => "bad-stack")
  | _ => "bad-case"

end TM.TreeHintDriver
