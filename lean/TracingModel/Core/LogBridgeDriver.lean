/- driver glue for C18 (both directions) -/
import TracingModel.Core.LogBridge
import TracingModel.Core.Wire

namespace TM.LogBridgeDriver
open TM.LogBridge TM.Wire

def splitOps : List String → List String → List (List String)
  | [], cur => if cur.isEmpty then [] else [cur.reverse]
  | t :: rest, cur => if t == ";" then (if cur.isEmpty then splitOps rest [] else cur.reverse :: splitOps rest []) else splitOps rest (t :: cur)

def optHex (h : String) : Option (Option String) := if h == "-" then some none else (unhex h).map some
def hexList (h : String) : Option (List String) := if h == "-" then some [] else (h.splitOn ",").mapM unhex
def showOpt : Option String → String | some s => hex s | none => "-"

structure BState where
  coll : Option Coll

def mkColl (cap : Option Nat) (allow : List String) : Coll :=
  { maxLevel := cap.getD 5,
    accepts := fun l t => (match cap with | some c => decide (l ≤ c) | none => true) && (allow.isEmpty || allow.any (fun p => t.startsWith p)) }

def bridgeStep (ign : List String) (s : BState) : List String → Option (BState × String)
  | ["col", cap, allow] => do
    let allow ← hexList allow
    let cap := if cap == "-" then none else cap.toNat?
    pure ({ coll := some (mkColl cap allow) }, "-")
  | ["rec", lvl, tgt, msg, md, fl, ln] => do
    let r : Record := { level := ← lvl.toNat?, target := ← unhex tgt, message := ← unhex msg, modulePath := ← optHex md, file := ← optHex fl,
                        line := if ln == "-" then none else ln.toNat? }
    match s.coll with
    | none => pure (s, "0")          -- no collector: NoCollector::enabled is false
    | some c =>
      let evs := bridge ign c r
      pure (s, if evs.isEmpty then "0" else ",".intercalate (evs.map fun e =>
        s!"log:{e.level}:{hex e.target}:{hex e.message}:{showOpt e.modulePath}:{showOpt e.file}:{match e.line with | some l => toString l | none => "-"}"))
  | _ => none

def runB (ign : List String) : BState → List (List String) → Option (List String)
  | _, [] => some []
  | s, op :: ops => do
    let (s', o) ← bridgeStep ign s op
    let rest ← runB ign s' ops
    pure (o :: rest)

def modelBridge (toks : List String) : String :=
  match toks with
  | ig :: ";;" :: ops =>
    match hexList ((ig.drop 4).toString) with
    | some ign =>
      match runB ign { coll := none } (splitOps ops []) with
      | some outs => " ".intercalate outs
      | none => "bad-case"
    | none => "bad-case"
  | _ => "bad-case"

/-! the other direction: who logs what while no collector has ever been installed -/

def showRecs (l : List (Nat × String × String)) : String :=
  if l.isEmpty then "-" else ",".intercalate (l.map fun (lv, t, _) => s!"{lv}:{hex t}")

def featStep (s : LState) : List String → Option (LState × String)
  | ["ev", lvl, _, _, _] => do
    let r := lstep s (.emit (← lvl.toNat?) "tgt_ev" "")
    pure (r.1, showRecs r.2)
  | ["sp", lvl, _] => do
    -- creation (the span's level and target), enter, exit (TRACE, "tracing::span::active"), drop (TRACE, "tracing::span")
    let l ← lvl.toNat?
    let steps : List (Nat × String) := [(l, "tgt_sp"), (5, "tracing::span::active"), (5, "tracing::span::active"), (5, "tracing::span")]
    pure (s, "+".intercalate (steps.map fun (lv, t) => showRecs (lstep s (.emit lv t "")).2))
  | ["sd"] => some ((lstep s .setDefault).1, "-")
  | ["dg"] => some ((lstep s .dropGuard).1, "-")
  | ["sg"] => some ((lstep s .setGlobal).1, "-")
  | _ => none

def runF : LState → List (List String) → Option (List String)
  | _, [] => some []
  | s, op :: ops => do
    let (s', o) ← featStep s op
    let rest ← runF s' ops
    pure (o :: rest)

def modelFeat (toks : List String) : String :=
  match runF LState.init (splitOps toks []) with
  | some outs => " ".intercalate outs
  | none => "bad-case"

/-! the specification of that direction, independent of the extracted facts: a record per step iff nothing was installed before -/

def specStep (installed : Bool) : List String → Option (Bool × String)
  | ["ev", lvl, _, _, _] => do
    let l ← lvl.toNat?
    pure (installed, if installed then "-" else s!"{l}:{hex "tgt_ev"}")
  | ["sp", lvl, _] => do
    let l ← lvl.toNat?
    let steps : List (Nat × String) := [(l, "tgt_sp"), (5, "tracing::span::active"), (5, "tracing::span::active"), (5, "tracing::span")]
    pure (installed, "+".intercalate (steps.map fun (lv, t) => if installed then "-" else s!"{lv}:{hex t}"))
  | ["sd"] => some (true, "-")
  | ["dg"] => some (installed, "-")
  | ["sg"] => some (true, "-")
  | _ => none

def runS : Bool → List (List String) → Option (List String)
  | _, [] => some []
  | s, op :: ops => do
    let (s', o) ← specStep s op
    let rest ← runS s' ops
    pure (o :: rest)

def specFeat (toks : List String) : String :=
  match runS false (splitOps toks []) with
  | some outs => " ".intercalate outs
  | none => "bad-case"

end TM.LogBridgeDriver
