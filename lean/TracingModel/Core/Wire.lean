/-
Line protocol helpers shared by all driver modes.  Import-free.
A case is one line of space-separated tokens; strings travel hex-encoded (UTF-8 bytes,
`-` for the empty string).
-/
namespace TM.Wire

def tokens (line : String) : List String :=
  (line.trimAscii.toString.splitOn " ").filter (· ≠ "")

def hexVal (c : Char) : Option Nat :=
  if '0' ≤ c ∧ c ≤ '9' then some (c.toNat - '0'.toNat)
  else if 'a' ≤ c ∧ c ≤ 'f' then some (c.toNat - 'a'.toNat + 10)
  else if 'A' ≤ c ∧ c ≤ 'F' then some (c.toNat - 'A'.toNat + 10)
  else none

def hexBytes : List Char → Option (List UInt8)
  | [] => some []
  | [_] => none
  | a :: b :: rest => do
    let x ← hexVal a
    let y ← hexVal b
    let r ← hexBytes rest
    pure (UInt8.ofNat (x * 16 + y) :: r)

def unhexBytes (s : String) : Option (List UInt8) :=
  if s == "-" then some [] else hexBytes s.toList

def unhex (s : String) : Option String := do
  let bs ← unhexBytes s
  String.fromUTF8? (ByteArray.mk bs.toArray)

def hexDigit (n : Nat) : Char :=
  if n < 10 then Char.ofNat (48 + n) else Char.ofNat (87 + n)

def hexOfBytes (bs : List UInt8) : String :=
  if bs.isEmpty then "-" else
  String.ofList (bs.flatMap fun b => [hexDigit (b.toNat / 16), hexDigit (b.toNat % 16)])

def hex (s : String) : String := hexOfBytes s.toUTF8.toList

def boolTok (b : Bool) : String := if b then "1" else "0"

def parseBool (s : String) : Option Bool :=
  if s == "1" then some true else if s == "0" then some false else none

end TM.Wire
