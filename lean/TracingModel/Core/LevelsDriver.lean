/- driver glue for C19: case line -> model answer / specification verdict.  Import-free. -/
import TracingModel.Core.Levels
import TracingModel.Spec.LevelOrder
import TracingModel.Core.Wire

namespace TM.LevelsDriver
open TM.Gen.Levels TM.Levels TM.Wire
open TM (Str ofString)

def lvlOf : String → Option Lvl
  | "error" => some .error | "warn" => some .warn | "info" => some .info | "debug" => some .debug | "trace" => some .trace
  | _ => none
def fltOf : String → Option Flt
  | "off" => some none
  | s => (lvlOf s).map some
def lname : Lvl → String := TM.Spec.LevelOrder.name
def fname : Flt → String := TM.Spec.LevelOrder.fname
def ordS : Ordering → String | .lt => "lt" | .eq => "eq" | .gt => "gt"
def oordS : Option Ordering → String | none => "none" | some o => "some " ++ ordS o

def strOfHex (h : String) : Option Str := (unhex h).map ofString

def model (toks : List String) : String :=
  match toks with
  | ["op", "LL", m, a, b] =>
    match lvlOf a, lvlOf b with
    | some a, some b =>
      match m with
      | "lt" => boolTok (LL_lt a b) | "le" => boolTok (LL_le a b) | "gt" => boolTok (LL_gt a b) | "ge" => boolTok (LL_ge a b)
      | "eq" => boolTok (LL_eq a b) | "ne" => boolTok (!LL_eq a b)
      | "cmp" => ordS (LL_cmp a b) | "partial_cmp" => oordS (LL_partial_cmp a b)
      | "max" => lname (LL_max a b) | "min" => lname (LL_min a b)
      | _ => "bad-method"
    | _, _ => "bad-case"
  | ["op", "FF", m, a, b] =>
    match fltOf a, fltOf b with
    | some a, some b =>
      match m with
      | "lt" => boolTok (FF_lt a b) | "le" => boolTok (FF_le a b) | "gt" => boolTok (FF_gt a b) | "ge" => boolTok (FF_ge a b)
      | "eq" => boolTok (FF_eq a b) | "ne" => boolTok (!FF_eq a b)
      | "cmp" => ordS (FF_cmp a b) | "partial_cmp" => oordS (FF_partial_cmp a b)
      | "max" => fname (FF_max a b) | "min" => fname (FF_min a b)
      | _ => "bad-method"
    | _, _ => "bad-case"
  | ["op", "LF", m, a, b] =>
    match lvlOf a, fltOf b with
    | some a, some b =>
      match m with
      | "lt" => boolTok (LF_lt a b) | "le" => boolTok (LF_le a b) | "gt" => boolTok (LF_gt a b) | "ge" => boolTok (LF_ge a b)
      | "eq" => boolTok (LF_eq a b) | "ne" => boolTok (!LF_eq a b)
      | "partial_cmp" => oordS (LF_partial_cmp a b)
      | _ => "bad-method"
    | _, _ => "bad-case"
  | ["op", "FL", m, a, b] =>
    match fltOf a, lvlOf b with
    | some a, some b =>
      match m with
      | "lt" => boolTok (FL_lt a b) | "le" => boolTok (FL_le a b) | "gt" => boolTok (FL_gt a b) | "ge" => boolTok (FL_ge a b)
      | "eq" => boolTok (FL_eq a b) | "ne" => boolTok (!FL_eq a b)
      | "partial_cmp" => oordS (FL_partial_cmp a b)
      | _ => "bad-method"
    | _, _ => "bad-case"
  | ["parseL", h] => match strOfHex h with
    | some s => match parseLevel s with | some l => "ok " ++ lname l | none => "err"
    | none => "bad-case"
  | ["parseF", h] => match strOfHex h with
    | some s => match parseFilter s with | some f => "ok " ++ fname f | none => "err"
    | none => "bad-case"
  | ["dispL", a] => match lvlOf a with | some a => hex (levelDisplay a) | none => "bad-case"
  | ["asstr", a] => match lvlOf a with | some a => hex (levelAsStr a) | none => "bad-case"
  | ["dispF", a] => match fltOf a with | some a => hex (filterDisplay a) | none => "bad-case"
  | ["setcur", a] => match fltOf a with
    | some a => match currentAfterSet a with | some f => fname f | none => "PANIC"
    | none => "bad-case"
  | ["fromL", a] => match lvlOf a with | some a => fname (some a) | none => "bad-case"
  | ["fromO", a] => match fltOf a with | some a => fname a | none => "bad-case"
  | ["intoL", a] => match fltOf a with
    | some (some l) => "some " ++ lname l | some none => "none" | none => "bad-case"
  | ["aslogL", a] => match lvlOf a with | some a => lname (levelAsLog a) | none => "bad-case"
  | ["astraceL", a] => match lvlOf a with | some a => lname (levelAsTrace a) | none => "bad-case"
  | ["aslogF", a] => match fltOf a with | some a => fname (filterAsLog a) | none => "bad-case"
  | ["astraceF", a] => match fltOf a with | some a => fname (filterAsTrace a) | none => "bad-case"
  | _ => "bad-case"

/-! specification: what the property demands, from ranks and the documented language only -/
open TM.Spec.LevelOrder in
def specAnswer (toks : List String) : Option String :=
  let rk (k : String) (x : String) : Option Nat :=
    if k == "L" then (lvlOf x).map rank else (fltOf x).map frank
  match toks with
  | ["op", kind, m, a, b] =>
    let ka := (kind.toList.take 1 |> String.ofList); let kb := (kind.toList.drop 1 |> String.ofList)
    match rk ka a, rk kb b with
    | some x, some y =>
      match m with
      | "lt" => some (boolTok (x < y)) | "le" => some (boolTok (x ≤ y)) | "gt" => some (boolTok (x > y))
      | "ge" => some (boolTok (x ≥ y)) | "eq" => some (boolTok (x == y)) | "ne" => some (boolTok (x != y))
      | "cmp" => some (ordS (compare x y)) | "partial_cmp" => some ("some " ++ ordS (compare x y))
      | "max" => some (if x ≥ y then a else b) | "min" => some (if x ≤ y then a else b)
      | _ => none
    | _, _ => none
  | ["parseL", h] => (strOfHex h).map fun s => match acceptLevel s with | some l => "ok " ++ name l | none => "err"
  | ["parseF", h] => (strOfHex h).map fun s => match acceptFilter s with | some f => "ok " ++ TM.Spec.LevelOrder.fname f | none => "err"
  | ["dispL", a] => (lvlOf a).map fun l => hex ((name l).toUpper)
  | ["asstr", a] => (lvlOf a).map fun l => hex ((name l).toUpper)
  | ["dispF", a] => (fltOf a).map fun f => hex (TM.Spec.LevelOrder.fname f)
  | ["setcur", a] => some a
  | ["fromL", a] => some a
  | ["fromO", a] => some a
  | ["intoL", a] => some (if a == "off" then "none" else "some " ++ a)
  | ["aslogL", a] => some a | ["astraceL", a] => some a | ["aslogF", a] => some a | ["astraceF", a] => some a
  | _ => none

/-- judge: `case => impl-output` -/
def judge (toks : List String) : String :=
  match toks.span (· ≠ "=>") with
  | (c, _ :: out) =>
    match specAnswer c with
    | some want => if " ".intercalate out == want then "ok" else "bad want:" ++ want.replace " " "_"
    | none => "bad-case"
  | _ => "bad no-output"

end TM.LevelsDriver
