/-
Model of the per-layer `Filter` trait's provided implementations and combinators:
  filter/subscriber_filters/mod.rs   (LevelFilter, Option<F>, Box/Arc passthrough)
  filter/subscriber_filters/combinator.rs (And, Or, Not)
  filter/filter_fn.rs                (FilterFn, DynFilterFn)
  filter/targets.rs                  (Targets as a Filter)
  reload.rs                          (reload::Subscriber<F> as a Filter: passthrough)
Each has `enabled`, `callsite_enabled` (the cached summary) and `max_level_hint`.
A hint `none` means "no limit".  `ctx` abstracts the span context a dynamic closure may read.
-/
import TracingModel.Core.Directive
import TracingModel.Core.Callsite

namespace TM.FilterExpr
open TM.Directive
open TM.Callsite (Interest)

abbrev Ctx := Nat

inductive FExpr
  | level (l : Nat)
  | targets (s : DSet)
  | fn (p : Meta → Bool) (hint : Option Nat)
  | dyn (p : Meta → Ctx → Bool) (hint : Option Nat) (cs : Option (Meta → Interest))
  | optNone
  | optSome (f : FExpr)
  | conj (a b : FExpr)
  | disj (a b : FExpr)
  | neg (a : FExpr)
  | reload (f : FExpr)
  | boxed (f : FExpr)

open FExpr

def enabledF : FExpr → Meta → Ctx → Bool
  | level l, m, _ => decide (m.level ≤ l)
  | targets s, m, _ => Directive.enabled s m
  | fn p _, m, _ => p m
  | dyn p _ _, m, c => p m c
  | optNone, _, _ => true
  | optSome f, m, c => enabledF f m c
  | conj a b, m, c => enabledF a m c && enabledF b m c
  | disj a b, m, c => enabledF a m c || enabledF b m c
  | neg a, m, c => !enabledF a m c
  | reload f, m, c => enabledF f m c
  | boxed f, m, c => enabledF f m c

def belowHint (h : Option Nat) (m : Meta) : Bool := match h with | some l => decide (m.level ≤ l) | none => true

def callsiteF : FExpr → Meta → Interest
  | level l, m => if m.level ≤ l then .always else .never
  | targets s, m => if Directive.enabled s m then .always else .never
  | fn p _, m => if p m then .always else .never
  | dyn _ hint cs, m =>
    match cs with
    | some g => g m
    | none => if belowHint hint m then .sometimes else .never
  | optNone, _ => .always
  | optSome f, m => callsiteF f m
  | conj a b, m =>
    let ia := callsiteF a m
    if ia = .never then ia else
    let ib := callsiteF b m
    if ib ≠ .always then ib else ia
  | disj a b, m =>
    let ia := callsiteF a m
    let ib := callsiteF b m
    if ia = .always ∨ ib = .always then .always
    else if ia = .sometimes ∨ ib = .sometimes then .sometimes
    else .never
  | neg a, m =>
    match callsiteF a m with
    | .always => .never
    | .never => .always
    | .sometimes => .sometimes
  | reload f, m => callsiteF f m
  | boxed f, m => callsiteF f m

/-- `cmp::min` on `Option<LevelFilter>`: `None < Some(_)` -/
def optMin : Option Nat → Option Nat → Option Nat
  | none, _ => none
  | _, none => none
  | some a, some b => some (min a b)

def hintF : FExpr → Option Nat
  | level l => some l
  | targets s => some s.maxLevel
  | fn _ h => h
  | dyn _ h _ => h
  | optNone => none
  | optSome f => hintF f
  | conj a b => optMin (hintF a) (hintF b)
  | disj a b => match hintF a, hintF b with
    | some x, some y => some (max x y)
    | _, _ => none
  | neg _ => none
  | reload f => hintF f
  | boxed f => hintF f

end TM.FilterExpr
