/-
Several threads each merge one recorded field into the SAME span's stored fields, under every interleaving: the model behind
"the span object shows every field recorded by a completed Span::record call" (tracing-subscriber/src/fmt/fmt_subscriber.rs:
on_record) when records on one span overlap.  Whether the merge happens under the span's extensions write lock — one atomic
read-modify-write of the stored fields — is extracted from the source on every run (Gen/AtomicCounts.lean).
-/
import TracingModel.Gen.AtomicCounts

namespace TM.AtomicMerge

inductive PC
  | todo
  | copied (seen : List Nat)     -- (merge outside the lock) has copied the stored fields, has not written back yet
  | done
deriving DecidableEq, Repr

structure S where
  fields : List Nat              -- the span's stored fields (a field is identified with the thread that records it; ≥ 1000: given at creation)
  pc : Nat → PC

def upd (f : Nat → PC) (t : Nat) (v : PC) : Nat → PC := fun x => if x = t then v else f x

/-- one atomic step of thread `t` -/
def step (underLock : Bool) (s : S) (t : Nat) : S :=
  match s.pc t with
  | .todo =>
    if underLock then { fields := t :: s.fields, pc := upd s.pc t .done }       -- lock; merge in place; unlock
    else { s with pc := upd s.pc t (.copied s.fields) }                          -- read-lock; copy; unlock …
  | .copied seen => { fields := t :: seen, pc := upd s.pc t .done }              -- … merge into the copy; write-lock; replace
  | .done => s

def run (underLock : Bool) (s : S) (sched : List Nat) : S := sched.foldl (step underLock) s

def start (given : List Nat) : S := { fields := given, pc := fun _ => .todo }

end TM.AtomicMerge
