/-
Model of what `#[instrument]` adds to a function (tracing-attributes/src/expand.rs gen_block):
the span (name, level, target, fields = the parameters that are neither skipped nor overridden by a
custom field, recorded through `Value` or `Debug` by their type, then the custom fields), the
sync shape (span and guard before the body; ret / err events before the guard is dropped), the
async shape (the body as an `Instrumented` future: created at the first poll, entered around every
poll and around the final drop), and the ret / err events.  Facts about expand.rs come from
`Gen.InstrumentFacts`.  Texts travel hex-encoded.  Import-free apart from the facts.
-/
import TracingModel.Gen.InstrumentFacts

namespace TM.Instrument
open TM.Gen.InstrumentFacts

structure Param where
  name : String          -- hex
  tyname : String        -- last path segment of the (dereferenced) type; anything that is not a path: "(tuple)" etc.
  valRender : String     -- what a typed visitor shows if recorded through `Value`, e.g. "u64:5" ("-" if not applicable)
  dbgHex : String        -- Debug text, hex

structure Custom where
  name : String          -- hex
  render : String        -- "u64:6" / "str:…" / "debug:…" / "bool:1"

inductive Mode | display | debug
deriving DecidableEq, Repr

structure EventCfg where
  mode : Mode
  level : Nat

structure Attr where
  name : String
  level : Nat
  target : String              -- the span's (and the ret/err events') target
  modpath : String             -- module path: the target of events written in the body
  skips : List String
  parentRoot : Bool            -- `parent = None`: an explicit root
  ret : Option EventCfg
  err : Option EventCfg

inductive Outcome
  | val (dbg disp : String)        -- a plain return value
  | ok (dbg disp : String)         -- `Ok(v)`
  | err (dbg disp : String)        -- `Err(e)`
  | panic

def overridden (customs : List Custom) (p : Param) : Bool :=
  -- a custom field whose (whole, single-segment) name equals the parameter
  overrideSingleSegment && customs.any (fun c => c.name == p.name)

def renderParam (p : Param) : String :=
  if typesForValue.contains p.tyname && valueForm then s!"{p.name}={p.valRender}"
  else s!"{p.name}=debug:{p.dbgHex}"

/-- the span's fields, in order -/
def spanFields (a : Attr) (ps : List Param) (customs : List Custom) : List String :=
  (ps.filter (fun p => !(skipFilter && a.skips.contains p.name) && !overridden customs p)).map renderParam ++
  customs.map (fun c => s!"{c.name}={c.render}")

def hexOf (s : String) : String :=
  let d (x : Nat) : Char := Char.ofNat (if x < 10 then 48 + x else 87 + x)
  String.join (s.toUTF8.toList.map fun b => String.ofList [d (b.toNat / 16), d (b.toNat % 16)])

/-- one entry of the collector's log -/
inductive E
  | new (line : String)
  | enter | exit | close
  | poll                                   -- the driver is about to poll the future (async only)
  | ev (level : Nat) (target field text : String)
deriving DecidableEq, Repr

def newLine (a : Attr) (ps : List Param) (customs : List Custom) : String :=
  s!"new:{a.name}:{a.level}:{a.target}:{if a.parentRoot then "root" else "ctx0"}:[{",".intercalate (spanFields a ps customs)}]"

def E.render : E → String
  | .new l => l
  | .enter => "enter" | .exit => "exit" | .close => "close" | .poll => "poll"
  | .ev lvl tgt f t => s!"ev:{lvl}:{tgt}:in1:[{hexOf f}=debug:{t}]"

def bodyEvent (a : Attr) (msg : String) : E := .ev 3 a.modpath "message" (hexOf msg)

def pick (m : Mode) (dbg disp : String) : String := match m with | .debug => dbg | .display => disp

/-- the ret / err events the expansion emits for this outcome -/
def tailEvents (a : Attr) (o : Outcome) : List E :=
  match o with
  | .panic => []
  | .val dbg disp => (match a.ret with | some r => [.ev r.level a.target "return" (pick r.mode dbg disp)] | none => [])
  | .ok dbg disp =>
    (match a.ret, a.err with
     | some r, some _ => [.ev r.level a.target "return" (pick r.mode dbg disp)]
     | some r, none => [.ev r.level a.target "return" (hexOf "Ok(" ++ dbg ++ hexOf ")")]      -- the whole Result, Debug
     | none, _ => [])
  | .err dbg disp =>
    (match a.err with
     | some e => [.ev e.level a.target "error" (pick e.mode dbg disp)]
     | none => (match a.ret with
        | some r => [.ev r.level a.target "return" (hexOf "Err(" ++ dbg ++ hexOf ")")]
        | none => []))

/-- the collector's log of one call of a sync function -/
def syncLog (a : Attr) (ps : List Param) (customs : List Custom) (o : Outcome) : List E :=
  [.new (newLine a ps customs), .enter, bodyEvent a "body"] ++ tailEvents a o ++ [.exit, .close]

/-- an async function polled `yields + 1` times by the driver (which logs `poll` before each poll) -/
def asyncLog (a : Attr) (ps : List Param) (customs : List Custom) (o : Outcome) (yields : Nat) : List E :=
  if yields = 0 then
    [.poll, .new (newLine a ps customs), .enter, bodyEvent a "body"] ++ tailEvents a o ++ [.exit, .enter, .exit, .close]
  else
    [.poll, .new (newLine a ps customs), .enter, bodyEvent a "body", .exit] ++
    (List.replicate (yields - 1) [E.poll, .enter, .exit]).flatten ++
    [.poll, .enter, bodyEvent a "after"] ++ tailEvents a o ++ [.exit, .enter, .exit, .close]

end TM.Instrument
