/-
Model of tracing-core/src/dispatch.rs (default-collector resolution), as repaired by the
"fix:" commit for F1:  thread-local `State.default : Option Dispatch` (None = no scoped
default), `DefaultGuard(prior)`, `SCOPED_COUNT`, `GLOBAL_INIT`, `GLOBAL_DISPATCH`, `EXISTS`;
`get_default` fast path / slow path, `set_default`, `Drop for DefaultGuard`,
`set_global_default`.  Collector id 0 is `Dispatch::none()` (NoCollector).
Import-free.
-/
namespace TM.Dispatch

abbrev Cid := Nat
abbrev Tid := Nat

def update {α} (f : Nat → α) (k : Nat) (v : α) : Nat → α := fun x => if x = k then v else f x

structure DState where
  dflt   : Tid → Option Cid           -- CURRENT_STATE.default of each thread
  guards : List (Tid × Option Cid)    -- live DefaultGuards, newest first: (owning thread, prior)
  scount : Nat                        -- SCOPED_COUNT
  ginit  : Nat                        -- GLOBAL_INIT: 0 UNINITIALIZED, 1 INITIALIZING, 2 INITIALIZED
  gdisp  : Option Cid                 -- GLOBAL_DISPATCH
  exists_ : Bool                      -- EXISTS

def DState.init : DState :=
  { dflt := fun _ => none, guards := [], scount := 0, ginit := 0, gdisp := none, exists_ := false }

/-- `get_global()` -/
def getGlobal (s : DState) : Option Cid := if s.ginit = 2 then s.gdisp else none

/-- the collector `get_default` hands to its closure on thread `t` (outside any collector
callback, i.e. `can_enter = true`): fast path when `SCOPED_COUNT == 0`, else the thread-local
default, else the global default -/
def current (s : DState) (t : Tid) : Option Cid :=
  if s.scount = 0 then getGlobal s
  else match s.dflt t with
    | some c => some c
    | none => getGlobal s

/-- `State::set_default` on thread `t` -/
def setDefault (s : DState) (t : Tid) (c : Cid) : DState :=
  { s with dflt := update s.dflt t (some c), guards := (t, s.dflt t) :: s.guards,
           scount := s.scount + 1, exists_ := true }

/-- remove the newest guard owned by `t`: its prior and the remaining guards -/
def takeGuard (t : Tid) : List (Tid × Option Cid) → Option (Option Cid × List (Tid × Option Cid))
  | [] => none
  | (o, p) :: rest =>
    if o = t then some (p, rest)
    else match takeGuard t rest with
      | none => none
      | some (q, rest') => some (q, (o, p) :: rest')

/-- `Drop for DefaultGuard` of thread `t`'s newest guard (guards are `!Send` and, in the
property's quantifier, properly nested; unwinding drops them in the same order) -/
def popGuard (s : DState) (t : Tid) : DState :=
  match takeGuard t s.guards with
  | none => s
  | some (prior, rest) =>
    { s with dflt := update s.dflt t prior, guards := rest, scount := s.scount - 1 }

/-- `set_global_default` (its three atomic steps taken together; the interleaved version is
`TM.GlobalInit`) -/
def setGlobal (s : DState) (c : Cid) : DState × Bool :=
  if s.ginit = 0 then ({ s with ginit := 2, gdisp := some c, exists_ := true }, true)
  else (s, false)

/-- does the dispatch state hold a strong reference to collector `c`? -/
def referenced (s : DState) (threads : List Tid) (c : Cid) : Bool :=
  threads.any (fun t => s.dflt t == some c) || s.guards.any (fun g => g.2 == some c) || (s.gdisp == some c)

end TM.Dispatch
