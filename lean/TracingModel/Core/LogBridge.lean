/-
Model of the two bridges between `log` and `tracing`:
  tracing-log (LogTracer::enabled / log, dispatch_record, normalized_metadata): a log record becomes
  at most one tracing event;
  tracing with the `log` feature (if_log_enabled!, __tracing_log!, Span::log): events and span
  lifecycle steps become log records while no collector has EVER been installed (dispatch::EXISTS).
Facts about the sources come from `Gen.LogFacts`.  Levels are ranks (ERROR 1 … TRACE 5; the
conversions between `log::Level` and `tracing::Level` are C19's tables).  Import-free apart from the facts.
-/
import TracingModel.Gen.LogFacts

namespace TM.LogBridge
open TM.Gen.LogFacts

/-! ### log → tracing -/

structure Record where
  level : Nat
  target : String
  message : String
  modulePath : Option String
  file : Option String
  line : Option Nat
deriving DecidableEq, Repr

/-- the current collector: what it answers to `enabled` for a (level, target), and its max-level hint as a rank -/
structure Coll where
  maxLevel : Nat                      -- LevelFilter::current() (the hint, TRACE = 5 if none)
  accepts : Nat → String → Bool

structure Normalized where
  level : Nat
  target : String
  message : String
  modulePath : Option String
  file : Option String
  line : Option Nat
deriving DecidableEq, Repr

def ignored (ignoreCrates : List String) (target : String) : Bool := ignoreCrates.any (fun p => target.startsWith p)

/-- `LogTracer::enabled` in the extracted order -/
def tracerEnabled (ignoreCrates : List String) (c : Coll) (r : Record) : Bool :=
  logTracerEnabledOrder.all fun step =>
    if step == "max-level" then decide (r.level ≤ c.maxLevel)
    else if step == "ignore-prefix" then !ignored ignoreCrates r.target
    else if step == "collector-enabled" then c.accepts r.level r.target
    else false

/-- `LogTracer::log`: the events the collector receives for one record (after `normalized_metadata`) -/
def bridge (ignoreCrates : List String) (c : Coll) (r : Record) : List Normalized :=
  if logTracerLogsIfEnabled && tracerEnabled ignoreCrates c r && dispatchRecordOneEvent && c.accepts r.level r.target then
    [{ level := r.level, target := r.target, message := r.message, modulePath := r.modulePath, file := r.file, line := r.line }]
  else []

/-! ### tracing → log (feature `log`, not `log-always`) -/

inductive Op
  | emit (level : Nat) (target : String) (text : String)     -- an event or a span lifecycle step written through the macros
  | setDefault                                               -- `set_default` / `with_default` (a nscoped collector)
  | dropGuard                                                -- the nscoped collector's guard is dropped
  | setGlobal                                                -- `set_global_default`
deriving Repr

structure LState where
  exists_ : Bool          -- dispatch::EXISTS
  nscoped : Nat            -- live nscoped guards (not consulted by the log gate)

def LState.init : LState := { exists_ := false, nscoped := 0 }

/-- one step: the log records emitted (to a logger that accepts everything) -/
def lstep (s : LState) : Op → LState × List (Nat × String × String)
  | .emit lvl tgt text =>
    let gateOpen := if logGateIsNotHasBeenSet && hasBeenSetReadsExists then !s.exists_ else s.nscoped == 0 && !s.exists_
    (s, if gateOpen && tracingLogChecksLoggerThenLogs then [(lvl, tgt, text)] else [])
  | .setDefault => ({ exists_ := s.exists_ || existsSetBySetDefault, nscoped := s.nscoped + 1 }, [])
  | .dropGuard => ({ s with nscoped := s.nscoped - 1 }, [])
  | .setGlobal => ({ s with exists_ := s.exists_ || existsSetBySetGlobal }, [])

def lrun : LState → List Op → List (List (Nat × String × String))
  | _, [] => []
  | s, op :: ops => let r := lstep s op; r.2 :: lrun r.1 ops

def isInstall : Op → Bool
  | .setDefault => true | .setGlobal => true | _ => false

end TM.LogBridge
