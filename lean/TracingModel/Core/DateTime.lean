/-
Model of tracing-subscriber/src/fmt/time/datetime.rs
  `impl From<SystemTime> for DateTime` and `impl Display for DateTime`.

Import-free (core Lean only) so that the driver links as a lean_exe.
Rust's `/` and `%` on signed integers truncate toward zero: `Int.tdiv` / `Int.tmod`.
The calendar constants are NOT written here: they come from
`TracingModel/Gen/DateTimeConsts.lean`, regenerated from the source on every run.
-/
import TracingModel.Gen.DateTimeConsts

namespace TM.DateTime
open TM.Gen.DateTimeConsts

structure DT where
  year   : Int
  month  : Int
  day    : Int
  hour   : Int
  minute : Int
  second : Int
  nanos  : Int
deriving Repr, DecidableEq

/-- `match timestamp.duration_since(UNIX_EPOCH)`: `before = false` is the `Ok` arm,
`before = true` the `Err` arm (`error.duration()` is the distance below the epoch). -/
def splitInstant (before : Bool) (secs : Nat) (nanos : Nat) : Int × Int :=
  if !before then ((secs : Int), (nanos : Int))
  else if (nanos : Int) == ZERO_NANOS then (-(secs : Int), NEG_EXACT_NANOS)
  else (-(secs : Int) - NEG_ADJ, NANOS_PER_SEC - (nanos : Int))

/-- `days`, `remsecs` (lines "let mut days … days -= 1") -/
def daySplit (t : Int) : Int × Int :=
  let days0 : Int := t.tdiv SECS_PER_DAY - LEAPOCH.tdiv SECS_PER_DAY
  let remsecs0 : Int := t.tmod SECS_PER_DAY
  if remsecs0 < 0 then (days0 - 1, remsecs0 + SECS_PER_DAY) else (days0, remsecs0)

/-- `let mut c = n / d; if c == clamp { c -= 1 }; n -= c * d`  ↦  `(c, n)` -/
def clampDiv (n d clamp : Int) : Int × Int :=
  let c0 : Int := n.tdiv d
  let c : Int := if c0 = clamp then c0 - 1 else c0
  (c, n - c * d)

/-- `let mut q = a / m; let mut r = a % m; if r < 0 { r += m; q -= 1 }`  ↦  `(q, r)` -/
def floorDivMod (a m : Int) : Int × Int :=
  if a.tmod m < 0 then (a.tdiv m - 1, a.tmod m + m) else (a.tdiv m, a.tmod m)

/-- the 400/100/4/1-year decomposition with its three clamps: `(years, remdays)` -/
def cycles (days : Int) : Int × Int :=
  let a := floorDivMod days DAYS_PER_400Y      -- (qc_cycles, remdays)
  let b := clampDiv a.2 DAYS_PER_100Y C_CLAMP  -- (c_cycles, remdays)
  let c := clampDiv b.2 DAYS_PER_4Y Q_CLAMP    -- (q_cycles, remdays)
  let d := clampDiv c.2 DAYS_PER_Y Y_CLAMP     -- (remyears, remdays)
  (d.1 + W_Q * c.1 + W_C * b.1 + W_QC * a.1, d.2)

/-- `while DAYS_IN_MONTH[months] <= remdays { remdays -= …; months += 1 }`.
Running off the end of the table is the Rust index panic: `none`. -/
def monthLoop : List Int → Int → Int → Option (Int × Int)
  | [], _, _ => none
  | d :: ds, months, remdays =>
    if LOOP_CMP d remdays then monthLoop ds (months + 1) (remdays - d) else some (months, remdays)

/-- Body of `From<SystemTime>` after the `match`, on mathematical integers.
`none` = index panic in the month loop. (Range of the intermediate `i32`/`i64` values:
theorem `C20.no_overflow`.) -/
def fromUnix (t : Int) (nanos : Int) : Option DT :=
  let ds := daySplit t          -- (days, remsecs)
  let cy := cycles ds.1         -- (years, remdays)
  match monthLoop DAYS_IN_MONTH 0 cy.2 with
  | none => none
  | some ml =>                  -- (months, remdays)
    let months := if WRAP_CMP ml.1 WRAP_AT then ml.1 - WRAP_BY else ml.1
    let years := if WRAP_CMP ml.1 WRAP_AT then cy.1 + 1 else cy.1
    some { year := years + YEAR_BASE, month := months + MONTH_BASE, day := ml.2 + DAY_BASE,
           hour := ds.2.tdiv SECS_PER_HOUR, minute := (ds.2.tdiv SECS_PER_MIN).tmod MINS_PER_HOUR,
           second := ds.2.tmod SECS_PER_MIN2, nanos := nanos }

/-! ### Display -/

def digitChar (n : Nat) : Char := Char.ofNat (48 + n % 10)

/-- decimal digits of `n`, most significant first, at least one digit -/
def natDigits (n : Nat) : List Char := (Nat.toDigits 10 n)

/-- `{:0w}` for a non-negative number -/
def padNat (w : Nat) (n : Nat) : List Char :=
  let ds := natDigits n
  List.replicate (w - ds.length) '0' ++ ds

/-- `{:0w}` for a signed number: the sign counts toward the width -/
def padInt (w : Nat) (n : Int) : List Char :=
  if n < 0 then '-' :: padNat (w - 1) n.natAbs else padNat w n.toNat

def displayYear (y : Int) : List Char :=
  if y > YEAR_PLUS then '+' :: natDigits y.toNat
  else if y < YEAR_NEG then padInt 5 y
  else padInt 4 y

def display (d : DT) : List Char :=
  displayYear d.year ++ ['-'] ++ padInt 2 d.month ++ ['-'] ++ padInt 2 d.day ++ ['T'] ++
  padInt 2 d.hour ++ [':'] ++ padInt 2 d.minute ++ [':'] ++ padInt 2 d.second ++ ['.'] ++
  padNat 6 (d.nanos.toNat / MICROS_DIV) ++ ['Z']

/-- what the conversion denotes mathematically for an instant given as
(before-epoch?, secs, subsec nanos): no machine-integer effects -/
def renderMath (before : Bool) (secs nanos : Nat) : String :=
  let tn := splitInstant before secs nanos
  match fromUnix tn.1 tn.2 with
  | none => "PANIC"
  | some d => String.ofList (display d)

def I64_MAX : Nat := 9223372036854775807

/-- what `format_time` prints in a build with debug assertions (the harness's and the
test suite's profile): `debug_assert!(duration.as_secs() <= i64::MAX as u64)` in both
arms of the `match`, and `-secs` on `i64`. -/
def render (before : Bool) (secs nanos : Nat) : String :=
  if secs > I64_MAX then "PANIC" else renderMath before secs nanos

end TM.DateTime
