/- driver glue for C07: `<stack> ;; ops` -> who received what -/
import TracingModel.Core.Filtering
import TracingModel.Core.DirectiveDriver
import TracingModel.Core.RegistryDriver

namespace TM.FilteringDriver
open TM.Filtering TM.FilterExpr TM.Directive TM.DirectiveDriver

/-- stack tokens: `P<n>` | `G<leaf>` | `F<n> <expr…> .`; filter ids are assigned to filtered layers in stack order -/
def parseStack : Nat → Nat → List String → Option Stack
  | 0, _, _ => none
  | _ + 1, _, [] => some []
  | fuel + 1, fid, t :: rest =>
    -- `none` / `empty` (an Option layer that is None, an empty Vec) are absent; `b:` `o:` `v:` `r:` `i:`
    -- prefixes name pass-through wrappers (C09): erased
    if t == "none" || t == "empty" then parseStack fuel fid rest else
    let t := (t.splitOn ":").getLast?.getD t
    match t.toList with
    | 'P' :: n => do
      let n ← (String.ofList n).toNat?
      let more ← parseStack fuel fid rest
      pure (.plain n :: more)
    | 'G' :: leaf => do
      let (e, _) ← parseExpr 4 [String.ofList leaf]
      let more ← parseStack fuel fid rest
      pure (.glob e :: more)
    | 'F' :: n => do
      let n ← (String.ofList n).toNat?
      let body := rest.takeWhile (· ≠ ".")
      let after := (rest.dropWhile (· ≠ ".")).drop 1
      let (e, left) ← parseExpr (body.length + 1) body
      if !left.isEmpty then none
      let more ← parseStack fuel (fid + 1) after
      pure (.filt fid e n :: more)
    | _ => none

def dotsN (l : List Nat) : String := ".".intercalate (l.map toString)

def stepOp (st : Stack) (s : TState) : List String → Option (TState × String)
  | ["ev", mi, c] => do
    let m ← metaUniverse[(← mi.toNat?)]?
    let r := emitEvent st s m (← c.toNat?)
    pure (r.1, s!"e:{dotsN r.2}")
  | ["sp", k, mi, c] => do
    let m ← metaUniverse[(← mi.toNat?)]?
    let r := emitSpan st s (← k.toNat?) m (← c.toNat?)
    pure (r.1, s!"s:{dotsN r.2}")
  | ["pr", mi, c] => do
    let m ← metaUniverse[(← mi.toNat?)]?
    let r := probe st s m (← c.toNat?)
    pure (r.1, s!"p:{if r.2 then 1 else 0}")
  | [op, k] =>
    if op == "en" || op == "ex" || op == "rc" || op == "cl" then do
      let k ← k.toNat?
      pure (s, s!"l:{dotsN (lifecycle st s k)}")
    else none
  | _ => none

def stepOpChain (st : Stack) (s : TState) : List String → Option (TState × String)
  | ["ev", mi, c] => do
    let m ← metaUniverse[(← mi.toNat?)]?
    let r := emitEventI (chainInterest st m) st s m (← c.toNat?)
    pure (r.1, s!"e:{dotsN r.2}")
  | ["sp", k, mi, c] => do
    let m ← metaUniverse[(← mi.toNat?)]?
    let r := emitSpanI (chainInterest st m) st s (← k.toNat?) m (← c.toNat?)
    pure (r.1, s!"s:{dotsN r.2}")
  | ["pr", mi, c] => do
    let m ← metaUniverse[(← mi.toNat?)]?
    let r := probeI (chainInterest st m) st s m (← c.toNat?)
    pure (r.1, s!"p:{if r.2 then 1 else 0}")
  | [op, k] =>
    if op == "en" || op == "ex" || op == "rc" || op == "cl" then do
      let k ← k.toNat?
      pure (s, s!"l:{dotsN (lifecycle st s k)}")
    else none
  | _ => none

def splitAt2 (toks : List String) : List String × List String :=
  (toks.takeWhile (· ≠ ";;"), (toks.dropWhile (· ≠ ";;")).drop 1)

def model (toks : List String) : String :=
  let (stk, ops) := splitAt2 toks
  match parseStack (stk.length + 1) 0 stk with
  | none => "bad-stack"
  | some st =>
    let rec go (s : TState) (acc : List String) : List (List String) → String
      | [] => " ".intercalate acc.reverse
      | o :: os => match stepOp st s o with
        | some (s', out) => go s' (out :: acc) os
        | none => "bad-op"
    go TState.init [] (TM.RegistryDriver.splitOn ops ";")

def modelChain (toks : List String) : String :=
  let (stk, ops) := splitAt2 toks
  match parseStack (stk.length + 1) 0 stk with
  | none => "bad-stack"
  | some st =>
    let rec go (s : TState) (acc : List String) : List (List String) → String
      | [] => " ".intercalate acc.reverse
      | o :: os => match stepOpChain st s o with
        | some (s', out) => go s' (out :: acc) os
        | none => "bad-op"
    go TState.init [] (TM.RegistryDriver.splitOn ops ";")

/-- specification: receivers from the filters' verdicts alone (no bitmap, no cache) -/
def specOp (st : Stack) (spans : List (Nat × Meta × Nat)) : List String → Option (List (Nat × Meta × Nat) × String)
  | ["ev", mi, c] => do
    let m ← metaUniverse[(← mi.toNat?)]?
    pure (spans, s!"e:{dotsN (shouldReceive st m (← c.toNat?))}")
  | ["sp", k, mi, c] => do
    let m ← metaUniverse[(← mi.toNat?)]?
    let c ← c.toNat?
    pure ((← k.toNat?, m, c) :: spans, s!"s:{dotsN (shouldReceive st m c)}")
  | ["pr", mi, c] => do
    let m ← metaUniverse[(← mi.toNat?)]?
    let c ← c.toNat?
    let globalsOk := st.all (fun nd => match nd with | .glob g => enabledF g m c | _ => true)
    pure (spans, s!"p:{if globalsOk then 1 else 0}")
  | [op, k] =>
    if op == "en" || op == "ex" || op == "rc" || op == "cl" then do
      let k ← k.toNat?
      match spans.lookup k with
      | some (m, c) => pure (spans, s!"l:{dotsN (shouldReceive st m c)}")
      | none => pure (spans, "l:")
    else none
  | _ => none

def spec (toks : List String) : String :=
  let (stk, ops) := splitAt2 toks
  match parseStack (stk.length + 1) 0 stk with
  | none => "bad-stack"
  | some st =>
    let rec go (sp : List (Nat × Meta × Nat)) (acc : List String) : List (List String) → String
      | [] => " ".intercalate acc.reverse
      | o :: os => match specOp st sp o with
        | some (sp', out) => go sp' (out :: acc) os
        | none => "bad-op"
    go [] [] (TM.RegistryDriver.splitOn ops ";")

end TM.FilteringDriver
