/-
Model of the registry's deferred slot removal (tracing-subscriber/src/registry/sharded.rs: `Registry::start_close`, `CLOSE_COUNT`,
`Drop for CloseGuard`, `Clear for DataInner`; tracing-subscriber/src/subscribe/layered.rs: `Layered::try_close`).

A stack of `n` layers over the registry is `n` nested `Layered` frames.  Releasing a reference of span `k` walks through all of
them: every frame calls `start_close` (the thread's CLOSE_COUNT + 1) before asking the frame below; the registry decrements the
reference count and says whether it reached zero; on the way back every frame whose inner part said "closed" hands `on_close(k)`
to its layer and then drops its guard: CLOSE_COUNT - 1, and the guard that finds the count at 1 removes the slot.  Removing the
slot releases the reference the span held on its parent (a further `try_close`, through the whole stack).

What a layer does inside `on_close` is its own business; the part that matters here is that it may drop span handles it owns
(`Will`): a close that starts INSIDE another span's `on_close` runs while the count is not zero.
-/
namespace TM.CloseGuard

/-- while layer `layer` (1 = innermost) handles the close of span `of`, it drops the handle of span `drops` that it owns -/
structure Will where
  layer : Nat
  of : Nat
  drops : Nat
deriving DecidableEq, Repr

structure S where
  count : Nat                      -- CLOSE_COUNT of the thread: how many guards are counting …
  closing : Nat                    -- … for which span (span + 1; 0: none) — used by the per-span rule only
  refs : Nat → Nat                 -- reference count per span: handles + open children
  held : List Nat                  -- spans whose (single) handle still exists
  closed : List Nat                -- spans whose count reached zero, most recent first
  cleared : List Nat               -- spans whose slot was removed, most recent first
  log : List (Nat × Nat × Bool)    -- (layer, span, stored data still readable) for every `on_close`, in order

def upd (f : Nat → Nat) (k v : Nat) : Nat → Nat := fun x => if x = k then v else f x

/-- what layer `layer` drops while it handles the close of `k` -/
def runWills (wills : List Will) (rec : S → Nat → S) (k layer : Nat) (s : S) : S :=
  (wills.filter (fun w => w.layer == layer && w.of == k)).foldl (fun s w =>
    if s.held.contains w.drops then rec { s with held := s.held.erase w.drops } w.drops else s) s

/-- a frame's guard goes: it stores count - 1 and, if it found the count at 1, removes the slot.  `perSpan = true`: the count
belongs to ONE span — the guards of a close that starts inside another span's `on_close` count from zero, and the guard that
finds 1 puts the interrupted count (`saved`) back.  `perSpan = false`: one count for the thread, whatever is being closed (the
code before the repair of F15). -/
def guardStep (perSpan : Bool) (parent : Nat → Option Nat) (rec : S → Nat → S) (k : Nat) (saved : Nat × Nat) (s : S) : S :=
  let c := s.count
  let s := { s with count := c - 1 }
  if c == 1 then
    let s := if perSpan then { s with closing := saved.1, count := saved.2 } else s
    let s := { s with cleared := k :: s.cleared }
    match parent k with
    | some p => rec s p            -- the slot's `Clear` releases the reference held on the parent
    | none => s
  else s

/-- one frame on the way back: the layer's `on_close(k)` (with whatever the layer drops there), then the frame's guard -/
def layerStep (perSpan : Bool) (parent : Nat → Option Nat) (wills : List Will) (rec : S → Nat → S) (k : Nat) (saved : Nat × Nat) (s : S) (i : Nat) : S :=
  guardStep perSpan parent rec k saved
    (runWills wills rec k (i + 1) { s with log := s.log ++ [(i + 1, k, !s.cleared.contains k)] })

/-- releasing one reference of `k`, through `n` frames -/
def release (perSpan : Bool) (n : Nat) (parent : Nat → Option Nat) (wills : List Will) : Nat → S → Nat → S
  | 0, s, _ => s
  | fuel + 1, s, k =>
    let r := s.refs k - 1
    let s := { s with refs := upd s.refs k r }
    if r ≠ 0 || s.closed.contains k then s            -- n guards taken and dropped again, none of them closing
    else
      (List.range n).foldl (layerStep perSpan parent wills (release perSpan n parent wills fuel) k (s.closing, s.count))
        (if perSpan then { s with closing := k + 1, count := n, closed := k :: s.closed }
         else { s with count := s.count + n, closed := k :: s.closed })

/-- the user drops the handle of `k` -/
def dropHandle (perSpan : Bool) (n : Nat) (parent : Nat → Option Nat) (wills : List Will) (fuel : Nat) (s : S) (k : Nat) : S :=
  if s.held.contains k then release perSpan n parent wills fuel { s with held := s.held.erase k } k else s

/-- `m` spans, each with one handle, and one reference per child -/
def start (m : Nat) (parent : Nat → Option Nat) : S :=
  { count := 0, closing := 0, held := List.range m, closed := [], cleared := [], log := [],
    refs := fun k => 1 + ((List.range m).filter (fun c => parent c == some k)).length }

end TM.CloseGuard
