/-
Model of the span registry:
  tracing-subscriber/src/registry/stack.rs    (SpanStack push / pop / current)
  tracing-subscriber/src/registry/sharded.rs  (new_span parent resolution, clone_span, try_close,
                                               enter, exit, CloseGuard, Clear for DataInner)
  tracing-subscriber/src/subscribe/layered.rs (Layered::try_close → on_close)
  tracing-subscriber/src/registry/mod.rs      (Scope iteration over stored parent ids)

Spans are named by their creation index (the slab's key reuse is abstracted: the harness maps
real ids to creation indices; that live ids are distinct is sharded_slab's contract).
A thread's default collector is `own` (the registry's stack), `noneD` (no default) or a foreign
one; `exit` and the slot's `Clear` close through the thread's CURRENT default, exactly as the
code does (finding F2).  Import-free.
-/
namespace TM.Registry

abbrev Sid := Nat
abbrev Tid := Nat

/-! ### SpanStack (stack.rs) -/

structure Ctx where
  id : Sid
  duplicate : Bool
deriving DecidableEq, Repr

/-- `SpanStack::push`: returns the new stack and whether the id was NOT already on it -/
def push (st : List Ctx) (id : Sid) : List Ctx × Bool :=
  let dup := st.any (fun c => c.id == id)
  (st ++ [⟨id, dup⟩], !dup)

/-- remove the LAST entry with this id (the stack is stored oldest first) -/
def removeLast (id : Sid) : List Ctx → Option (Ctx × List Ctx)
  | [] => none
  | c :: rest =>
    match removeLast id rest with
    | some (x, rest') => some (x, c :: rest')
    | none => if c.id = id then some (c, rest) else none

/-- `SpanStack::pop`: new stack and whether a non-duplicate entry was removed -/
def pop (st : List Ctx) (id : Sid) : List Ctx × Bool :=
  match removeLast id st with
  | some (c, rest) => (rest, !c.duplicate)
  | none => (st, false)

/-- `SpanStack::current`: the last non-duplicate entry -/
def current (st : List Ctx) : Option Sid :=
  ((st.reverse.filter (fun c => !c.duplicate)).head?).map (·.id)

/-! ### the registry -/

structure Slot where
  refs : Nat
  parent : Option Sid
  present : Bool          -- still in the slab (not yet cleared)
deriving Repr

inductive Dflt | own | noneD
deriving DecidableEq, Repr

structure RState where
  slots : List Slot                 -- indexed by creation index
  stacks : Tid → List Ctx
  dflt : Tid → Dflt                 -- the thread's current default collector
  closed : List Sid                 -- `on_close` notifications so far, oldest first

def RState.init : RState := { slots := [], stacks := fun _ => [], dflt := fun _ => .own, closed := [] }

def update {α} (f : Nat → α) (k : Nat) (v : α) : Nat → α := fun x => if x = k then v else f x

def setSlot (s : RState) (id : Sid) (sl : Slot) : RState := { s with slots := s.slots.set id sl }

/-- `clone_span`: ref count + 1 -/
def cloneRef (s : RState) (id : Sid) : RState :=
  match s.slots[id]? with
  | some sl =>
    -- `assert_ne!(refs, 0, "tried to clone a span that already closed")`: a panic in the code,
    -- unreachable for programs that only clone through live handles; a no-op here
    if sl.refs = 0 then s else setSlot s id { sl with refs := sl.refs + 1 }
  | none => s

/-- `Layered::try_close(id)` through the registry's own stack: `fetch_sub`; only 1 → 0 reports
closed (`on_close` for every layer, data still present), then the `CloseGuard` clears the slot, and
`Clear` releases the parent through the thread's current default (cascade).  `fuel` bounds the
cascade by the number of spans. -/
def tryClose : Nat → RState → Tid → Sid → RState
  | 0, s, _, _ => s
  | fuel + 1, s, t, id =>
    match s.slots[id]? with
    | none => s
    | some sl =>
      if sl.refs = 0 then s else          -- "no such span" / underflow: not reachable
      if sl.refs > 1 then setSlot s id { sl with refs := sl.refs - 1 }
      else
        -- reported closed; slot cleared; parent reference released via the current default
        let s1 := { (setSlot s id { refs := 0, parent := none, present := false }) with closed := s.closed ++ [id] }
        match sl.parent with
        | none => s1
        | some p =>
          match s.dflt t with
          | .own => tryClose fuel s1 t p
          | .noneD => s1                    -- F2: NoCollector::try_close does nothing; the parent leaks

/-- closing through the thread's current default -/
def closeViaDefault (s : RState) (t : Tid) (id : Sid) : RState :=
  match s.dflt t with
  | .own => tryClose (s.slots.length + 1) s t id
  | .noneD => s

inductive ParentKind
  | root
  | contextual
  | explicit (p : Sid)
deriving Repr

/-- parent resolution of `Registry::new_span` -/
def resolveParent (s : RState) (t : Tid) : ParentKind → Option Sid
  | .root => none
  | .contextual => current (s.stacks t)
  | .explicit p => some p

/-- `.map(|id| self.clone_span(id))` on the resolved parent -/
def refParent (s : RState) : Option Sid → RState
  | some p => cloneRef s p
  | none => s

/-- `Registry::new_span`: resolve the parent, take a reference on it, check out a slot with
`ref_count = 1` -/
def newSpan (s : RState) (t : Tid) (k : ParentKind) : RState :=
  let parent := resolveParent s t k
  let s1 := refParent s parent
  { s1 with slots := s1.slots ++ [{ refs := 1, parent := parent, present := true }] }

/-- `Registry::enter` -/
def enter (s : RState) (t : Tid) (id : Sid) : RState :=
  let r := push (s.stacks t) id
  let s1 := { s with stacks := update s.stacks t r.1 }
  if r.2 then cloneRef s1 id else s1

/-- `Registry::exit`: pop; if a non-duplicate entry was removed, `get_default(|d| d.try_close(id))` -/
def exit (s : RState) (t : Tid) (id : Sid) : RState :=
  let r := pop (s.stacks t) id
  let s1 := { s with stacks := update s.stacks t r.1 }
  if r.2 then closeViaDefault s1 t id else s1

/-- dropping a `Span` handle: `Dispatch::try_close` on the collector that created it (the
handle carries its own dispatch: this does NOT go through the thread's default) — but the slot's
`Clear` inside still uses the dropping thread's default for the parent -/
def dropHandle (s : RState) (t : Tid) (id : Sid) : RState := tryClose (s.slots.length + 1) s t id

/-- ancestors from leaf to root following stored parent ids (`Scope`), stopping at a span that is
no longer present -/
def scope : Nat → RState → Sid → List Sid
  | 0, _, _ => []
  | fuel + 1, s, id =>
    match s.slots[id]? with
    | some sl =>
      if sl.present then
        id :: (match sl.parent with
               | some p => scope fuel s p
               | none => [])
      else []
    | none => []

inductive Op
  | newSpan (t : Tid) (k : ParentKind)
  | cloneHandle (id : Sid)
  | dropHandle (t : Tid) (id : Sid)
  | enter (t : Tid) (id : Sid)
  | exit (t : Tid) (id : Sid)
  | setDflt (t : Tid) (d : Dflt)
deriving Repr

def step (s : RState) : Op → RState
  | .newSpan t k => newSpan s t k
  | .cloneHandle id => cloneRef s id
  | .dropHandle t id => dropHandle s t id
  | .enter t id => enter s t id
  | .exit t id => exit s t id
  | .setDflt t d => { s with dflt := update s.dflt t d }

end TM.Registry
