/-
Model of per-layer filtering in a stack `registry().with(n₀).with(n₁)…` (innermost first):
  filter/subscriber_filters/mod.rs  (Filtered: register_callsite / enabled / event_enabled /
                                     on_event / on_new_span / lifecycle hooks; FilterState: the
                                     per-thread bitmap of filters that DISABLED the item in flight,
                                     the pending interest; FilterMap)
  subscribe/layered.rs              (Layered as Collect: register_callsite + pick_interest,
                                     enabled with the global-veto `clear_enabled`, event_enabled,
                                     new_span / event inner-then-outer)
  registry/sharded.rs               (Registry::register_callsite / enabled / event_enabled,
                                     the per-span FilterMap stored at new_span)
together with the macro front end (interest cached per callsite: `never` skips everything,
`always` skips the `enabled` pass).  Import-free apart from the filter-expression model.
-/
import TracingModel.Core.FilterExpr

namespace TM.Filtering
open TM.FilterExpr TM.Directive
open TM.Callsite (Interest)

/-- one `.with(...)` of the stack -/
inductive Node
  | plain (n : Nat)                              -- a recording layer, no filter of its own
  | glob (g : FExpr)                             -- a global filter layer (LevelFilter / Targets / FilterFn as a Subscribe)
  | filt (fid : Nat) (f : FExpr) (n : Nat)       -- recording layer n `.with_filter(f)`; fid = its FilterId bit

abbrev Stack := List Node      -- innermost first

def Node.isFilt : Node → Bool
  | .filt _ _ _ => true
  | _ => false

/-- the thread's `FilterState.enabled` map: true = that filter disabled what is in flight -/
abbrev Bits := List Nat        -- the set of filter ids whose bit is set

def Bits.clean : Bits := []
def setBit (b : Bits) (fid : Nat) (disabled : Bool) : Bits :=
  if disabled then (if b.contains fid then b else fid :: b) else b.filter (· ≠ fid)
def isDisabled (b : Bits) (fid : Nat) : Bool := b.contains fid

/-! ### callsite registration: `register_callsite` + `pick_interest` -/

/-- `FilterState::add_interest` -/
def addInterest (p : Option Interest) (i : Interest) : Option Interest :=
  match p with
  | none => some i
  | some c => if (c = .always ∧ i ≠ .always) ∨ (c = .never ∧ i ≠ .never) then some .sometimes else some c

/-- what one node's own `register_callsite` answers, and what it adds to the pending
per-layer-filter interest (`FilterState.interest`) -/
def nodeInterest (m : Meta) (nd : Node) (pend : Option Interest) : Interest × Option Interest :=
  match nd with
  | .filt _ f _ => (.always, addInterest pend (callsiteF f m))
  | .glob g => (callsiteF g m, pend)
  | .plain _ => (.always, pend)

/-- the stack is `registry().with(n₀.and_then(n₁).and_then(n₂)…)` — how stacks whose shape is
only known at run time are built.  `Layered::register_callsite` of the and_then tree, nodes
OUTERMOST first: the outer node registers first, then `pick_interest`.  Inside the tree
`inner_has_subscriber_filter` can only be true when every node below is a `Filtered`, and those
answer `always` themselves, so the "inner never ⇒ sometimes" rule never fires here. -/
def regTree (m : Meta) : List Node → Option Interest → Interest × Option Interest
  | [], pend => (.always, pend)                       -- (not reached: stacks are non-empty)
  | [nd], pend => nodeInterest m nd pend
  | nd :: below, pend =>
    let r := nodeInterest m nd pend
    if nd.isFilt then regTree m below r.2               -- has_subscriber_filter ⇒ `inner()`
    else if r.1 = .never then (.never, none)            -- `FilterState::take_interest()`
    else
      let i := regTree m below r.2
      if r.1 = .sometimes then (.sometimes, i.2)
      else i

/-- the top-level `Layered<Tree, Registry>::register_callsite`.  The tree counts as
"per-layer filtered" only if EVERY node is (the PSF downcast marker is found in both branches
of every `Layered`). -/
def stackInterest (st : Stack) (m : Meta) : Interest :=
  let t := regTree m st.reverse none
  let registry : Interest := if st.any Node.isFilt then t.2.getD .always else .always
  if st.all Node.isFilt then registry
  else if t.1 = .never then .never
  else if t.1 = .sometimes then .sometimes
  else if registry = .never then .sometimes
  else registry

/-! ### the `enabled` pass (outermost first) -/

/-- returns the new bitmap and the answer of `Collect::enabled` -/
def enabledPass (m : Meta) (c : Ctx) : List Node → Bits → Bits × Bool
  | [], b => (b, true)                                                   -- Registry::enabled (fewer than 64 filters)
  | .filt fid f _ :: below, b => enabledPass m c below (setBit b fid (!enabledF f m c))
  | .glob g :: below, b =>
    if enabledF g m c then enabledPass m c below b
    else (Bits.clean, false)                                             -- global veto: `FilterState::clear_enabled`
  | .plain _ :: below, b => enabledPass m c below b

/-- delivery (`event` / `new_span`, innermost first): a filtered layer consults and consumes its bit -/
def deliverPass : List Node → Bits → Bits × List Nat
  | [], b => (b, [])
  | .plain n :: above, b => let r := deliverPass above b; (r.1, n :: r.2)
  | .glob _ :: above, b => deliverPass above b
  | .filt fid _ n :: above, b =>
    if isDisabled b fid then deliverPass above (setBit b fid false)     -- `did_enable`: skip, clear the bit
    else let r := deliverPass above b; (r.1, n :: r.2)

structure TState where
  bits : Bits
  spans : List (Nat × Bits)   -- FilterMap stored with each created span (by the program's name for it)

def TState.init : TState := { bits := Bits.clean, spans := [] }

/-- the macro front end + dispatch for one EVENT at metadata `m`: returns receivers (layer numbers, innermost first) -/
def emitEvent (st : Stack) (s : TState) (m : Meta) (c : Ctx) : TState × List Nat :=
  match stackInterest st m with
  | .never => (s, [])
  | i =>
    let r := if i = .always then (s.bits, true) else enabledPass m c st.reverse s.bits
    if r.2 then
      let d := deliverPass st r.1
      ({ s with bits := d.1 }, d.2)
    else ({ s with bits := r.1 }, [])

/-- one SPAN creation: as an event, and the registry stores the bitmap with the span -/
def emitSpan (st : Stack) (s : TState) (k : Nat) (m : Meta) (c : Ctx) : TState × List Nat :=
  match stackInterest st m with
  | .never => (s, [])
  | i =>
    let r := if i = .always then (s.bits, true) else enabledPass m c st.reverse s.bits
    if r.2 then
      let d := deliverPass st r.1
      ({ bits := d.1, spans := (k, r.1) :: s.spans }, d.2)
    else ({ s with bits := r.1 }, [])

/-- enter / exit / record / close of span `k`: a filtered layer is notified iff the span's stored
map does not have its bit (`Context::if_enabled_for`) -/
def lifecycle (st : Stack) (s : TState) (k : Nat) : List Nat :=
  match s.spans.lookup k with
  | none => []
  | some map =>
    st.filterMap fun
      | .plain n => some n
      | .glob _ => none
      | .filt fid _ n => if isDisabled map fid then none else some n

/-- `enabled!(…)` / `log_enabled!`: the `enabled` pass only — nothing consumes the bits -/
def probe (st : Stack) (s : TState) (m : Meta) (c : Ctx) : TState × Bool :=
  match stackInterest st m with
  | .never => (s, false)
  | i =>
    let r := if i = .always then (s.bits, true) else enabledPass m c st.reverse s.bits
    ({ s with bits := r.1 }, r.2)

/-! ### specification: who should receive -/

/-- does every global filter of the stack accept? -/
def globalsOk (st : Stack) (m : Meta) (c : Ctx) : Bool :=
  st.all (fun nd => match nd with | .glob g => enabledF g m c | _ => true)

/-- a layer's own verdict -/
def specOf (m : Meta) (c : Ctx) : Node → Option Nat
  | .plain n => some n
  | .glob _ => none
  | .filt _ f n => if enabledF f m c then some n else none

/-- layer `n` receives an item iff every global filter accepts it and the layer's own filter (if it
has one) accepts it — nothing else matters -/
def shouldReceive (st : Stack) (m : Meta) (c : Ctx) : List Nat :=
  if globalsOk st m c then st.filterMap (specOf m c) else []

end TM.Filtering

namespace TM.Filtering
open TM.FilterExpr TM.Directive
open TM.Callsite (Interest)

/-! ### statically nested stacks `registry().with(n₀).with(n₁)…`

Every `.with` adds a Collect-level `Layered`; `pick_interest` then sees
`inner_has_subscriber_filter` = "the stack below contains a per-layer filter, or is the bare
Registry", and `has_subscriber_filter` = "this node is a `Filtered`". -/

/-- nodes OUTERMOST first; `pend` = the per-layer-filter interest accumulated so far -/
def regChain (m : Meta) (hasPsf : Bool) : List Node → Option Interest → Interest
  | [], pend => if hasPsf then pend.getD .always else .always           -- Registry::register_callsite
  | .filt _ f _ :: below, pend => regChain m hasPsf below (addInterest pend (callsiteF f m))
  | node :: below, pend =>
    let o : Interest := match node with
      | .glob g => callsiteF g m
      | _ => .always
    if o = .never then .never                                            -- (pending interest is taken and dropped)
    else
      let inner := regChain m hasPsf below pend
      if o = .sometimes then .sometimes
      else if inner = .never ∧ (below.any Node.isFilt || below.isEmpty) then .sometimes
      else inner

def chainInterest (st : Stack) (m : Meta) : Interest :=
  regChain m (st.any Node.isFilt) st.reverse none

def emitEventI (i : Interest) (st : Stack) (s : TState) (m : Meta) (c : Ctx) : TState × List Nat :=
  match i with
  | .never => (s, [])
  | i =>
    let r := if i = .always then (s.bits, true) else enabledPass m c st.reverse s.bits
    if r.2 then
      let d := deliverPass st r.1
      ({ s with bits := d.1 }, d.2)
    else ({ s with bits := r.1 }, [])

def emitSpanI (i : Interest) (st : Stack) (s : TState) (k : Nat) (m : Meta) (c : Ctx) : TState × List Nat :=
  match i with
  | .never => (s, [])
  | i =>
    let r := if i = .always then (s.bits, true) else enabledPass m c st.reverse s.bits
    if r.2 then
      let d := deliverPass st r.1
      ({ bits := d.1, spans := (k, r.1) :: s.spans }, d.2)
    else ({ s with bits := r.1 }, [])

def probeI (i : Interest) (st : Stack) (s : TState) (m : Meta) (c : Ctx) : TState × Bool :=
  match i with
  | .never => (s, false)
  | i =>
    let r := if i = .always then (s.bits, true) else enabledPass m c st.reverse s.bits
    ({ s with bits := r.1 }, r.2)

end TM.Filtering
