/-
Model of target/level directive sets:
  tracing-subscriber/src/filter/directive.rs  (StaticDirective, its Ord, DirectiveSet::add /
                                               enabled / target_enabled, FromStr, Display)
  tracing-subscriber/src/filter/targets.rs    (Targets: FromStr, Display, would_enable, enabled)
Levels are filter ranks (OFF 0 … TRACE 5); metadata levels are ranks 1 … 5.
Strings are lists of Unicode scalar values.  Import-free apart from the shared Str and the
level parser of C19.
-/
import TracingModel.Core.Levels

namespace TM.Directive
open TM (Str ofString)

structure SDir where
  target : Option Str
  fields : List Str
  level : Nat
deriving DecidableEq, Repr

structure Meta where
  target : Str
  level : Nat
  isEvent : Bool
  fields : List Str
deriving Repr

/-! ### `impl Ord for StaticDirective` -/

/-- lexicographic comparison of strings (`str::cmp`: bytewise = by scalar value) -/
def lexCmp : Str → Str → Ordering
  | [], [] => .eq
  | [], _ :: _ => .lt
  | _ :: _, [] => .gt
  | a :: as, b :: bs => if a < b then .lt else if a > b then .gt else lexCmp as bs

def lexCmpList : List Str → List Str → Ordering
  | [], [] => .eq
  | [], _ :: _ => .lt
  | _ :: _, [] => .gt
  | a :: as, b :: bs => match lexCmp a b with
    | .eq => lexCmpList as bs
    | o => o

/-- `Option<T>::cmp`: None < Some -/
def optCmp {α} (f : α → α → Ordering) : Option α → Option α → Ordering
  | none, none => .eq
  | none, some _ => .lt
  | some _, none => .gt
  | some a, some b => f a b

def natCmp (a b : Nat) : Ordering := compare a b

def thenCmp (a : Ordering) (b : Ordering) : Ordering := match a with | .eq => b | o => o

def rev : Ordering → Ordering | .lt => .gt | .gt => .lt | .eq => .eq

/-- the directive order: by target length, then number of field names, then lexicographically
(target, then field names); all REVERSED, so that the most specific sorts first -/
def cmpDir (a b : SDir) : Ordering :=
  rev (thenCmp (optCmp natCmp (a.target.map List.length) (b.target.map List.length))
      (thenCmp (natCmp a.fields.length b.fields.length)
      (thenCmp (optCmp lexCmp a.target b.target) (lexCmpList a.fields b.fields))))

/-! ### `DirectiveSet` -/

structure DSet where
  dirs : List SDir
  maxLevel : Nat
deriving Repr

def DSet.empty : DSet := { dirs := [], maxLevel := 0 }

/-- position found by `binary_search` in the sorted vector: replace on `Equal`, else insert -/
def insertDir (d : SDir) : List SDir → List SDir
  | [] => [d]
  | e :: rest =>
    match cmpDir d e with
    | .lt => d :: e :: rest
    | .eq => d :: rest
    | .gt => e :: insertDir d rest

/-- `DirectiveSet::add` -/
def DSet.add (s : DSet) (d : SDir) : DSet :=
  { dirs := insertDir d s.dirs, maxLevel := if d.level > s.maxLevel then d.level else s.maxLevel }

def build (ds : List SDir) : DSet := ds.foldl DSet.add DSet.empty

def isPrefix : Str → Str → Bool
  | [], _ => true
  | _ :: _, [] => false
  | a :: as, b :: bs => a == b && isPrefix as bs

/-- `Match::cares_about` for `StaticDirective` -/
def cares (d : SDir) (m : Meta) : Bool :=
  (match d.target with
   | some t => isPrefix t m.target
   | none => true) &&
  (if m.isEvent && !d.fields.isEmpty then d.fields.all (fun f => m.fields.contains f) else true)

/-- `StaticDirective::cares_about_target` (used by `would_enable`) -/
def caresTarget (d : SDir) (target : Str) : Bool :=
  (match d.target with
   | some t => isPrefix t target
   | none => true) && d.fields.isEmpty

/-- `DirectiveSet::<StaticDirective>::enabled`: the first caring directive decides -/
def enabled (s : DSet) (m : Meta) : Bool :=
  match s.dirs.find? (fun d => cares d m) with
  | some d => decide (m.level ≤ d.level)
  | none => false

/-- `Targets::would_enable` -/
def wouldEnable (s : DSet) (target : Str) (level : Nat) : Bool :=
  match s.dirs.find? (fun d => caresTarget d target) with
  | some d => decide (level ≤ d.level)
  | none => false

/-! ### text: `FromStr` / `Display` of `StaticDirective` and `Targets` -/

def splitChar (c : Nat) : Str → List Str
  | [] => [[]]
  | x :: rest =>
    match splitChar c rest with
    | [] => [[x]]                     -- unreachable: splitChar never returns []
    | cur :: more => if x = c then [] :: cur :: more else (x :: cur) :: more

/-- `str::split("[{")` -/
def splitBrace : Str → List Str
  | [] => [[]]
  | [x] => [[x]]
  | x :: y :: rest =>
    if x = 91 ∧ y = 123 then [] :: splitBrace rest
    else match splitBrace (y :: rest) with
      | [] => [[x]]
      | cur :: more => (x :: cur) :: more

/-- `strip_suffix("}]")` -/
def stripBraceSuffix (s : Str) : Option Str :=
  match s.reverse with
  | 93 :: 125 :: r => some r.reverse
  | _ => none

def TRACE : Nat := 5

def filterRank : TM.Gen.Levels.Flt → Nat
  | none => 0
  | some .error => 1 | some .warn => 2 | some .info => 3 | some .debug => 4 | some .trace => 5

def parseLevelFilter (s : Str) : Option Nat := (TM.Levels.parseFilter s).map filterRank

/-- `impl FromStr for StaticDirective` -/
def parseStatic (s : Str) : Option SDir :=
  match splitChar 61 s with
  | [part0] =>
    match parseLevelFilter part0 with
    | some l => some { target := none, fields := [], level := l }
    | none => some { target := some part0, fields := [], level := TRACE }
  | [part0, part1] =>
    match splitBrace part0 with
    | [t] => (parseLevelFilter part1).map fun l => { target := some t, fields := [], level := l }
    | [t, maybe] =>
      match stripBraceSuffix maybe with
      | none => none
      | some fs =>
        (parseLevelFilter part1).map fun l =>
          { target := some t, fields := (splitChar 44 fs).filter (fun f => !f.isEmpty), level := l }
    | _ => none
  | _ => none

/-- `impl FromStr for Targets` -/
def parseTargets (s : Str) : Option DSet :=
  let rec go : List Str → Option (List SDir)
    | [] => some []
    | p :: ps => match parseStatic p, go ps with
      | some d, some ds => some (d :: ds)
      | _, _ => none
  (go (splitChar 44 s)).map build

def levelName : Nat → Str
  | 0 => ofString "off" | 1 => ofString "error" | 2 => ofString "warn" | 3 => ofString "info"
  | 4 => ofString "debug" | _ => ofString "trace"

def joinWith (sep : Nat) : List Str → Str
  | [] => []
  | [x] => x
  | x :: rest => x ++ [sep] ++ joinWith sep rest

/-- `impl Display for StaticDirective` -/
def displayStatic (d : SDir) : Str :=
  let t := match d.target with | some t => t | none => []
  let f := if d.fields.isEmpty then [] else [91, 123] ++ joinWith 44 d.fields ++ [125, 93]
  let wrote := d.target.isSome || !d.fields.isEmpty
  t ++ f ++ (if wrote then [61] else []) ++ levelName d.level

/-- `impl Display for Targets` -/
def displayTargets (s : DSet) : Str := joinWith 44 (s.dirs.map displayStatic)

end TM.Directive

namespace TM.Directive
open TM (Str ofString)

/-! ### EnvFilter's directive grammar, target/level part
(`env/directive.rs` DIRECTIVE_RE: `^(global_level)$ | ^(target|span){1,2}(=(level)?)?$` with
target `[\w:-]+`; this model covers directives WITHOUT a `[span]` part, ASCII only) -/

def isWord (c : Nat) : Bool := (48 ≤ c && c ≤ 57) || (65 ≤ c && c ≤ 90) || (97 ≤ c && c ≤ 122) || c == 95
def isTargetChar (c : Nat) : Bool := isWord c || c == 58 || c == 45

/-- `(?i:trace|debug|info|warn|error|off|[0-5])`, anchored -/
def reLevel (s : Str) : Option Nat :=
  match s with
  | [d] => if 48 ≤ d ∧ d ≤ 53 then some (d - 48) else none
  | _ =>
    let low := s.map TM.Levels.asciiLower
    if low == ofString "trace" then some 5 else if low == ofString "debug" then some 4
    else if low == ofString "info" then some 3 else if low == ofString "warn" then some 2
    else if low == ofString "error" then some 1 else if low == ofString "off" then some 0 else none

def splitFirst (c : Nat) : Str → Str × Option Str
  | [] => ([], none)
  | x :: rest =>
    if x = c then ([], some rest)
    else let r := splitFirst c rest; (x :: r.1, r.2)

/-- `Directive::parse` for a directive without a span part; `none` = `ParseError` -/
def parseEnvDir (s : Str) : Option SDir :=
  match reLevel s with
  | some l => some { target := none, fields := [], level := l }
  | none =>
    let p := splitFirst 61 s
    let t := p.1
    if t.isEmpty || !t.all isTargetChar then none else
    let target : Option Str := match parseLevelFilter t with | some _ => none | none => some t
    match p.2 with
    | none => some { target := target, fields := [], level := TRACE }
    | some lv =>
      if lv.isEmpty then some { target := target, fields := [], level := TRACE }
      else (reLevel lv).map fun l => { target := target, fields := [], level := l }

/-- `Builder::parse` (no default directive), static directives only -/
def parseEnv (s : Str) : Option DSet :=
  if s.isEmpty then some DSet.empty else
  let rec go : List Str → Option (List SDir)
    | [] => some []
    | p :: ps => match parseEnvDir p, go ps with
      | some d, some ds => some (d :: ds)
      | _, _ => none
  (go ((splitChar 44 s).filter (fun p => !p.isEmpty))).map build

end TM.Directive
