/-
Model of the rolling file appender (tracing-appender/src/rolling.rs): rotation deadlines
(`round_date`, `next_date` as arithmetic on UNIX seconds — UTC has no DST), file names (`join_date`
with the rotation's date format, prefix and suffix), `should_rollover` / `advance_date` (a
compare-exchange on the deadline) / `refresh_writer` / `prune_old_logs`, the exclusive `Write`
path and the shared `make_writer` path.  The directory is a list of files with a creation
sequence number (what pruning sorts by) and their content.  Whether the new deadline is computed
from NOW is the extracted fact `Gen.RollingFacts.advanceFromNow`.  Import-free apart from the facts.
-/
import TracingModel.Gen.RollingFacts

namespace TM.Rolling
open TM.Gen.RollingFacts

inductive Kind | minutely | hourly | daily | never
deriving DecidableEq, Repr

def period : Kind → Nat
  | .minutely => 60 | .hourly => 3600 | .daily => 86400 | .never => 0

/-- `round_date`: the start of the period containing `t` -/
def roundDate (k : Kind) (t : Nat) : Nat := if period k = 0 then t else t - t % period k

/-- `next_date`: `round_date(t + one period)`; 0 = never rotates -/
def nextDate (k : Kind) (t : Nat) : Nat := if period k = 0 then 0 else roundDate k (t + period k)

/-! ### the proleptic Gregorian date of a day number (days since 1970-01-01, non-negative) -/

def civil (z0 : Nat) : Nat × Nat × Nat :=
  let z := z0 + 719468
  let era := z / 146097
  let doe := z % 146097
  let yoe := (doe - doe / 1460 + doe / 36524 - doe / 146096) / 365
  let doy := doe - (365 * yoe + yoe / 4 - yoe / 100)
  let mp := (5 * doy + 2) / 153
  let d := doy - (153 * mp + 2) / 5 + 1
  let m := if mp < 10 then mp + 3 else mp - 9
  let y := yoe + era * 400 + (if m ≤ 2 then 1 else 0)
  (y, m, d)

def pad (w n : Nat) : List Char :=
  let ds := Nat.toDigits 10 n
  List.replicate (w - ds.length) '0' ++ ds

/-- the date part of the file name for the period with index `q = t / period` -/
def dateOfQ (k : Kind) (q : Nat) : String :=
  let t := if period k = 0 then q else q * period k
  let (y, m, d) := civil (t / 86400)
  let sod := t % 86400
  let ymd := pad 4 y ++ ['-'] ++ pad 2 m ++ ['-'] ++ pad 2 d
  String.ofList (match k with
    | .minutely => ymd ++ ['-'] ++ pad 2 (sod / 3600) ++ ['-'] ++ pad 2 (sod % 3600 / 60)
    | .hourly => ymd ++ ['-'] ++ pad 2 (sod / 3600)
    | _ => ymd)

def periodIndex (k : Kind) (t : Nat) : Nat := if period k = 0 then t else t / period k

/-- `join_date` -/
def fileName (k : Kind) (pre suf : Option String) (t : Nat) : String :=
  let date := dateOfQ k (periodIndex k t)
  match k, pre, suf with
  | .never, some p, none => p
  | .never, some p, some s => p ++ "." ++ s
  | .never, none, some s => s
  | _, some p, some s => p ++ "." ++ date ++ "." ++ s
  | _, some p, none => p ++ "." ++ date
  | _, none, some s => date ++ "." ++ s
  | _, none, none => date

structure File where
  name : String
  created : Nat
  content : List String       -- the buffers written, in order
deriving Repr

structure S where
  kind : Kind
  pre : Option String
  suf : Option String
  max : Option Nat
  deadline : Nat              -- next_date; 0 = never
  current : String            -- the file the writer handle points to
  dir : List File
  seq : Nat                   -- creation counter

def openFile (s : S) (name : String) : S :=
  if s.dir.any (·.name == name) then { s with current := name }
  else { s with current := name, dir := s.dir ++ [{ name := name, created := s.seq, content := [] }], seq := s.seq + 1 }

def S.init (k : Kind) (pre suf : Option String) (max : Option Nat) (t0 : Nat) : S :=
  openFile { kind := k, pre := pre, suf := suf, max := max, deadline := nextDate k t0, current := "", dir := [], seq := 0 }
    (fileName k pre suf t0)

/-- does a directory entry belong to this appender (prefix / suffix match; with neither, the name must parse as a date) -/
def isMine (s : S) (f : File) : Bool :=
  (match s.pre with | some p => f.name.startsWith p | none => true) &&
  (match s.suf with | some x => f.name.endsWith x | none => true)

def insertByCreated (f : File) : List File → List File
  | [] => [f]
  | g :: rest => if f.created < g.created then f :: g :: rest else g :: insertByCreated f rest

def sortByCreated (l : List File) : List File := l.foldr insertByCreated []

/-- `prune_old_logs` -/
def prune (s : S) (max : Nat) : S :=
  let mine := s.dir.filter (isMine s)
  if mine.length < max then s
  else
    let doomed := ((sortByCreated mine).take (mine.length - (max - 1))).map (·.name)
    { s with dir := s.dir.filter (fun f => !doomed.contains f.name) }

/-- `refresh_writer` -/
def refresh (s : S) (now : Nat) : S :=
  let s1 := match s.max with | some m => prune s m | none => s
  openFile s1 (fileName s.kind s.pre s.suf now)

/-- `advance_date`'s new deadline -/
def newDeadline (s : S) (now : Nat) : Nat :=
  if advanceFromNow then nextDate s.kind now else nextDate s.kind s.deadline

def append (s : S) (buf : String) : S :=
  { s with dir := s.dir.map fun f => if f.name == s.current then { f with content := f.content ++ [buf] } else f }

/-- one write (either interface; a single thread): should_rollover → advance_date → refresh_writer, then write -/
def write (s : S) (now : Nat) (buf : String) : S :=
  if s.deadline ≠ 0 ∧ s.deadline ≤ now then
    append (refresh { s with deadline := newDeadline s now } now) buf
  else append s buf

/-- `n` threads arrive at the same instant through `make_writer`: every one that still reads the old deadline
tries the compare-exchange; exactly the first succeeds and refreshes; all then write one line each -/
def parallel (s : S) (now : Nat) (n : Nat) : S :=
  let s1 := if s.deadline ≠ 0 ∧ s.deadline ≤ now then refresh { s with deadline := newDeadline s now } now else s
  (List.range n).foldl (fun s i => append s s!"P{i}\n") s1

end TM.Rolling
