/-
A shared counter updated by several threads, one operation each, under every interleaving: the model behind
"SCOPED_COUNT is the number of live scopes" (tracing-core/src/dispatch.rs: State::set_default, Drop for DefaultGuard) and
"the span's reference count loses no clone and elects exactly one closer" (tracing-subscriber/src/registry/sharded.rs:
clone_span, try_close).  Whether each update is ONE atomic read-modify-write — and whether the closer is chosen by the value the
decrement itself returned — is extracted from the source on every run (Gen/AtomicCounts.lean); the transition system is
parametrised by it.
-/
import TracingModel.Gen.AtomicCounts

namespace TM.AtomicCount

inductive Kind | inc | dec
deriving DecidableEq, Repr

inductive PC
  | todo
  | loaded (v : Nat)        -- (non-atomic increment) has read the counter, has not stored yet
  | decremented             -- (closer chosen by a separate load) has decremented, has not looked yet
  | done (last : Bool)      -- finished; `last` = this thread concluded that it released the last reference
deriving DecidableEq, Repr

structure S where
  c : Nat
  pc : Nat → PC

def upd (f : Nat → PC) (t : Nat) (v : PC) : Nat → PC := fun x => if x = t then v else f x

/-- one atomic step of thread `t` -/
def step (rmwInc decByOld : Bool) (kind : Nat → Kind) (s : S) (t : Nat) : S :=
  match s.pc t, kind t with
  | .todo, .inc =>
    if rmwInc then { c := s.c + 1, pc := upd s.pc t (.done false) }           -- fetch_add
    else { s with pc := upd s.pc t (.loaded s.c) }                             -- load …
  | .loaded v, .inc => { c := v + 1, pc := upd s.pc t (.done false) }          -- … store(v + 1)
  | .todo, .dec =>
    if decByOld then { c := s.c - 1, pc := upd s.pc t (.done (s.c == 1)) }     -- fetch_sub returned 1: the last one
    else { c := s.c - 1, pc := upd s.pc t .decremented }                       -- fetch_sub, result unused …
  | .decremented, .dec => { s with pc := upd s.pc t (.done (s.c == 0)) }       -- … then a separate load
  | _, _ => s

def run (rmwInc decByOld : Bool) (kind : Nat → Kind) (s : S) (sched : List Nat) : S := sched.foldl (step rmwInc decByOld kind) s

def start (c0 : Nat) : S := { c := c0, pc := fun _ => .todo }

/-- how many of the threads `ths` have finished -/
def isDone : PC → Bool | .done _ => true | _ => false
def isCloser : PC → Bool | .done true => true | _ => false

def finished (s : S) (ths : List Nat) : Nat := (ths.filter fun t => isDone (s.pc t)).length

/-- how many of the threads `ths` concluded that they released the last reference -/
def closers (s : S) (ths : List Nat) : Nat := (ths.filter fun t => isCloser (s.pc t)).length

end TM.AtomicCount
