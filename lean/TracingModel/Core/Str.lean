/- Strings as lists of Unicode scalar values (`Nat`), shared by models and specifications. -/
namespace TM
abbrev Str := List Nat
def ofString (s : String) : Str := s.toList.map Char.toNat
end TM
