/-
The max-level hint of an `and_then` tree of subscribers INCLUDING the subscribers that are not there —
`Option::None`, an empty `Vec` — and the pass-through wrappers (`Box`, `Some`, `vec![_]`, `reload::Subscriber`,
`and_then(Identity)`):  tracing-subscriber/src/subscribe/layered.rs (`pick_level_hint`, `Layered::downcast_raw`),
subscribe/mod.rs (`Option` / `Vec` / `Box` impls: `max_level_hint`, `downcast_raw`, `NoneLayerMarker`), reload.rs
(`downcast_raw` forwards only the none marker).

What `pick_level_hint` looks at for each operand is three things: its hint, whether it counts as per-layer-filtered
(the PSF marker is found in it — for a tree: in BOTH branches) and whether it counts as "not there" (the none marker is found
in it — for a tree: in BOTH branches, since the repair of F33; before it, in EITHER, so that one absent member made a whole
group count as absent).  Import-free apart from the hint merge of Core/Reload.
-/
import TracingModel.Core.Reload

namespace TM.TreeHint
open TM.Reload

/-- what `pick_level_hint` can see of an operand -/
structure View where
  hint : Option Nat
  psf : Bool
  none : Bool
deriving DecidableEq, Repr

def plainV : View := { hint := none, psf := false, none := false }
def globV (h : Option Nat) : View := { hint := h, psf := false, none := false }
def filtV (h : Option Nat) : View := { hint := h, psf := true, none := false }
/-- `Option::None` (and, since the repair of F31, an empty `Vec`): `Some(OFF)` as a placeholder, the none marker -/
def noneV : View := { hint := some 0, psf := false, none := true }

/-- `Layered::pick_level_hint` (inner is not the registry) -/
def pick (o i : View) : Option Nat :=
  if o.psf && i.psf then
    (match o.hint, i.hint with
     | some a, some b => some (max a b)
     | _, _ => none)
  else if o.psf && i.hint.isNone then none
  else if i.psf && o.hint.isNone then none
  else if o.none then (match i.hint with | none => none | some b => optMax o.hint (some b))
  else if i.none && i.hint == some 0 then o.hint
  else optMax o.hint i.hint

/-- `inner.and_then(outer)` as one operand -/
def andThen (inner outer : View) : View :=
  { hint := pick outer inner, psf := outer.psf && inner.psf, none := outer.none && inner.none }

/-- the pass-through wrappers: `Box`, `Some(_)`, `vec![_]` forward everything; `reload::Subscriber` forwards the hint and the
none marker but cannot be downcast through (documented), so it hides a per-layer filter; `l.and_then(Identity)` is a tree -/
def wrap (p : Char) (v : View) : View :=
  if p = 'r' then { v with psf := false }
  else if p = 'i' then andThen v plainV
  else v

/-- `l0.and_then(l1).and_then(l2)…` as one operand; the list is OUTERMOST first (`l2, l1, l0`) -/
def treeO : List View → Option View
  | [] => Option.none
  | [v] => some v
  | v :: below => (treeO below).map (fun i => andThen i v)

/-- the published hint of `registry().with(tree)` (stack given INNERMOST first): the registry is the inner value of the
collector-level `Layered`, so the tree's own hint is taken -/
def stackHintV (l : List View) : Option Nat := (treeO l.reverse).bind (·.hint)

end TM.TreeHint
