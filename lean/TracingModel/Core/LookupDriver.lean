/- driver glue for the C07 lookup stream: `<stack> ;; ops` -> what every receiving layer saw when it looked spans up -/
import TracingModel.Core.Lookup
import TracingModel.Core.FilteringDriver

namespace TM.LookupDriver
open TM.Lookup TM.Filtering TM.FilterExpr TM.Directive TM.DirectiveDriver TM.FilteringDriver

def parsePar (t : String) : Option Par :=
  if t == "r" then some .root else if t == "c" then some .contextual else t.toNat?.map .explicit

def optS : Option Nat → String
  | none => "-"
  | some k => toString k
def listS : Option (List Nat) → String
  | none => "-"
  | some l => if l.isEmpty then "." else ",".intercalate (l.map toString)

/-- the lookups are parametrised by the visibility predicate so that the specification can use its own -/
structure View where
  vis : Option Nat → Nat → Bool

def vScope (s : LState) (v : View) (ofid : Option Nat) (k : Nat) : List Nat := (ancestors s k).filter (v.vis ofid)
def vSpan (v : View) (ofid : Option Nat) (k : Nat) : Option Nat := if v.vis ofid k then some k else none
def vCur (s : LState) (v : View) (ofid : Option Nat) : Option Nat := s.stack.find? (v.vis ofid)
def vParent (s : LState) (v : View) (ofid : Option Nat) (k : Nat) : Option Nat := ((ancestors s k).drop 1).find? (v.vis ofid)
def vEventSpan (s : LState) (v : View) (ofid : Option Nat) : Par → Option Nat
  | .root => none
  | .contextual => vCur s v ofid
  | .explicit j => if exists_ s j then vSpan v ofid j else none

def layersS (st : Stack) (recv : List Nat) (f : Option Nat → String) : String :=
  "/".intercalate (recv.map fun n => s!"{n}({f (fidOfLayer st n)})")

def modelView (s : LState) : View := { vis := visible s }
def specView (st : Stack) (s : LState) : View := { vis := visibleSpec st s }

def stepOp (spec : Bool) (st : Stack) (s : LState) : List String → Option (LState × String)
  | ["ev", mi, c, p] => do
    let m ← metaUniverse[(← mi.toNat?)]?
    let c ← c.toNat?
    let p ← parsePar p
    let r := event st s m c
    let recv := if spec then shouldReceive st m c else r.2
    let s' := r.1
    let v := if spec then specView st s' else modelView s'
    pure (s', "e:" ++ layersS st recv fun o =>
      s!"es={optS (vEventSpan s' v o p)}|sc={listS ((vEventSpan s' v o p).map (vScope s' v o))}|cu={optS (vCur s' v o)}")
  | ["sp", k, mi, c, p] => do
    let m ← metaUniverse[(← mi.toNat?)]?
    let c ← c.toNat?
    let k ← k.toNat?
    let p ← parsePar p
    let r := newSpan st s k m c p
    let recv := if spec then shouldReceive st m c else r.2
    let s' := r.1
    let v := if spec then specView st s' else modelView s'
    pure (s', "s:" ++ layersS st recv fun o =>
      s!"pa={optS (vParent s' v o k)}|sc={listS ((vSpan v o k).map (vScope s' v o))}|cu={optS (vCur s' v o)}")
  | [op, k] => do
    let k ← k.toNat?
    if !(op == "en" || op == "ex" || op == "rc" || op == "cl") then none
    let s1 := if op == "en" then enter s k else if op == "ex" then exit s k else s
    let recv := if spec then
        (match s.born.lookup k with
         | some (m, c) => if exists_ s k then shouldReceive st m c else []
         | none => [])
      else lifecycle st s.t k
    let v := if spec then specView st s1 else modelView s1
    let out := "l:" ++ layersS st recv fun o =>
      s!"sc={listS ((vSpan v o k).map (vScope s1 v o))}|cu={optS (vCur s1 v o)}"
    let s2 := if op == "cl" then close s1 k else s1
    pure (s2, out)
  | _ => none

def run (spec : Bool) (toks : List String) : String :=
  let (stk, ops) := splitAt2 toks
  match parseStack (stk.length + 1) 0 stk with
  | none => "bad-stack"
  | some st =>
    let rec go (s : LState) (acc : List String) : List (List String) → String
      | [] => " ".intercalate acc.reverse
      | o :: os => match stepOp spec st s o with
        | some (s', out) => go s' (out :: acc) os
        | none => "bad-op"
    go LState.init [] (TM.RegistryDriver.splitOn ops ";")

def model (toks : List String) : String := run false toks
def spec (toks : List String) : String := run true toks

end TM.LookupDriver
