/- driver glue for the C11 span-scoped-directive stream -/
import TracingModel.Core.EnvDyn
import TracingModel.Core.RegistryDriver

namespace TM.EnvDynDriver
open TM TM.EnvDyn TM.Directive

def str (s : String) : Str := TM.ofString s

def optStr (t : String) : Option Str := if t == "-" then none else some (str t)

/-- `[-]i.f` with f one of 0, 25, 5, 75: the value in quarters -/
def parseQuarters (t : String) : Option Int :=
  let neg := t.startsWith "-"
  let a := if neg then (t.drop 1).toString else t
  match a.splitOn "." with
  | [ip, fp] =>
    match ip.toNat?, (if fp == "0" then some 0 else if fp == "25" then some 1 else if fp == "5" then some 2 else if fp == "75" then some 3 else none) with
    | some i, some (f : Nat) => some (if neg then -((4 * i + f : Nat) : Int) else ((4 * i + f : Nat) : Int))
    | _, _ => none
  | _ => none

def parseVal (t : String) : Val :=
  if t == "true" then .bool true else if t == "false" then .bool false
  else match t.toInt? with
    | some n => .int n
    | none => match parseQuarters t with
      | some q => .float q
      | none => .other

def plusSplit (t : String) : List String := if t == "-" then [] else t.splitOn "+"

/-- a matcher in a directive: what is not a boolean or a number is a fixed text (only generated for filters with regular
expressions switched off) -/
def parseMatcher (t : String) : Val :=
  match parseVal t with
  | .other => .dbg (str t)
  | v => v

/-- a recorded value: `d:<text>` is a value whose Debug output is `<text>` -/
def parseValue (t : String) : Val :=
  if t.startsWith "d:" then .dbg (str (t.drop 2).toString) else parseVal t

def parseFields (t : String) : List (Str × Option Val) :=
  (plusSplit t).map fun f => match f.splitOn "=" with
    | [n, v] => (str n, some (parseMatcher v))
    | _ => (str f, none)

def parseVals (t : String) : List (Str × Val) :=
  (plusSplit t).filterMap fun f => match f.splitOn "=" with
    | [n, v] => some (str n, parseValue v)
    | _ => none

def parseDirs : List String → Option (List DDir)
  | [] => some []
  | "D" :: tgt :: sp :: fs :: lvl :: rest => do
    let more ← parseDirs rest
    pure ({ target := optStr tgt, inSpan := optStr sp, fields := parseFields fs, level := ← lvl.toNat? } :: more)
  | _ => none

def mkMeta (name target lvl fs : String) (isSpan : Bool) : Option CMeta := do
  pure { name := str name, target := str target, level := ← lvl.toNat?, isSpan := isSpan, fields := (plusSplit fs).map str }

/-- specification state: the caring spans currently entered on the thread with the level they had when entered -/
structure Sp where
  st : St
  entered : List (Nat × Nat)

def b (x : Bool) : String := if x then "1" else "0"

def specPasses (e : Env) (sp : Sp) (m : CMeta) : Bool :=
  caredSpan e m || Directive.enabled e.statics m.toMeta || sp.entered.any (fun x => decide (m.level ≤ x.2))

def stepOp (spec : Bool) (e : Env) (sp : Sp) : List String → Option (Sp × String)
  | ["sp", k, name, tgt, lvl, fs, vals] => do
    let m ← mkMeta name tgt lvl fs true
    let k ← k.toNat?
    let ok := if spec then specPasses e sp m else passes e sp.st m
    if ok then pure ({ sp with st := newSpan e sp.st k m (parseVals vals) }, "s:1") else pure (sp, "s:0")
  | ["ev", name, tgt, lvl, fs] => do
    let m ← mkMeta name tgt lvl fs false
    pure (sp, "e:" ++ b (if spec then specPasses e sp m else passes e sp.st m))
  | ["qi", kind, name, tgt, lvl, fs] => do
    -- what the filter answers when asked directly: the cached summary (register_callsite) and the decision (enabled) here and now
    let m ← mkMeta name tgt lvl fs (kind == "s")
    let i := match registerCallsite e m with | .never => "n" | .sometimes => "s" | .always => "a"
    pure (sp, s!"i:{i},q:{b (EnvDyn.enabled e sp.st m)}")
  | ["rc", k, vals] => do pure ({ sp with st := record sp.st (← k.toNat?) (parseVals vals) }, "-")
  | ["en", k] => do
    let k ← k.toNat?
    let ent := match sp.st.byId.lookup k with
      | some l => (k, levelOf l) :: sp.entered
      | none => sp.entered
    pure ({ st := enter sp.st k, entered := ent }, "-")
  | ["ex", k] => do
    let k ← k.toNat?
    pure ({ st := exit sp.st k, entered := sp.entered.filter (·.1 ≠ k) }, "-")
  | ["cl", k] => do pure ({ sp with st := close sp.st (← k.toNat?) }, "-")
  | _ => none

def run (spec : Bool) (toks : List String) : String :=
  let hd := toks.takeWhile (· ≠ ";;")
  let ops := (toks.dropWhile (· ≠ ";;")).drop 1
  match parseDirs (hd.drop 1) with
  | none => "bad-case"
  | some ds =>
    -- `A` / `B`: one add_directive per directive (`B`, `Q`: regular expressions switched off — the same tables)
    let viaAdd := hd.head? == some "A" || hd.head? == some "B"
    -- `ad D …`: a directive added to the running filter (`add_directive` on the value in place, behind a reload handle): the
    -- tables change, the matchers of the spans that exist and the levels already raised on the thread stay
    let rec go (ds : List DDir) (s : Sp) (acc : List String) : List (List String) → String
      | [] => " ".intercalate acc.reverse
      | ("ad" :: d) :: os =>
        match viaAdd, parseDirs d with
        | true, some [d1] => go (ds ++ [d1]) s ("-" :: acc) os
        | _, _ => "bad-op"
      | o :: os => match stepOp spec (mkEnv viaAdd ds) s o with
        | some (s', out) => go ds s' (out :: acc) os
        | none => "bad-op"
    go ds { st := St.init, entered := [] } [] (TM.RegistryDriver.splitOn ops ";")

def model (toks : List String) : String := run false toks
def spec (toks : List String) : String := run true toks

end TM.EnvDynDriver
