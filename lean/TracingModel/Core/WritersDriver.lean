/- driver glue for C13: `<cfg> ;; <writer expr> ;; ops` -> the sinks' call log per op (without the record text) -/
import TracingModel.Core.Writers

namespace TM.WritersDriver
open TM.Writers

def parsePred (t : String) : Option Pred :=
  match t.toList with
  | 'F' :: 'l' :: k => (String.ofList k).toNat?.map .levelLe
  | 'F' :: 't' :: k => (String.ofList k).toNat?.map .targetIs
  | 'F' :: 'n' :: k => (String.ofList k).toNat?.map .notTarget
  | _ => none

def parseW : Nat → List String → Option (WExpr × List String)
  | 0, _ => none
  | _ + 1, [] => none
  | fuel + 1, t :: rest =>
    match t.toList with
    | 'S' :: k => (String.ofList k).toNat?.map fun k => (.sink k, rest)
    | 'M' :: l => do let l ← (String.ofList l).toNat?; let (e, r) ← parseW fuel rest; pure (.maxLevel l e, r)
    | 'm' :: l => do let l ← (String.ofList l).toNat?; let (e, r) ← parseW fuel rest; pure (.minLevel l e, r)
    | 'F' :: _ => do let p ← parsePred t; let (e, r) ← parseW fuel rest; pure (.filter p e, r)
    | ['T'] => do let (a, r1) ← parseW fuel rest; let (b, r2) ← parseW fuel r1; pure (.tee a b, r2)
    | ['O'] => do let (a, r1) ← parseW fuel rest; let (b, r2) ← parseW fuel r1; pure (.orElse a b, r2)
    | ['B'] => do let (e, r) ← parseW fuel rest; pure (.boxed e, r)
    | _ => none

def showAsk (k : Nat) : Ask → String
  | .plain => s!"{k}:p"
  | .withMeta m => s!"{k}:f{m.level}.{m.target}"

/-- one record: the makers asked (in evaluation order), then one write per reached sink -/
def recordLog (e : WExpr) (m : WMeta) : List String :=
  let r := emitRecord e m
  r.map (fun x => showAsk x.1 x.2) ++ r.map (fun x => s!"{x.1}:w")

def showLog (l : List String) : String := if l.isEmpty then "-" else ",".intercalate l

/-- the specification: the same log computed from the denotation `sel` alone -/
def specRecord (e : WExpr) (m : WMeta) : List String :=
  (sel e m).map (fun k => s!"{k}:f{m.level}.{m.target}") ++ (sel e m).map (fun k => s!"{k}:w")


structure St where
  spans : List (Nat × WMeta × Bool)     -- name ↦ metadata, entered?

def splitOps : List String → List String → List (List String)
  | [], cur => if cur.isEmpty then [] else [cur.reverse]
  | t :: rest, cur => if t == ";" then (if cur.isEmpty then splitOps rest [] else cur.reverse :: splitOps rest []) else splitOps rest (t :: cur)

def stepOp (recordLog : WExpr → WMeta → List String) (nestedToo : Bool) (e : WExpr) (mask : Nat) (s : St) : List String → Option (St × String)
  | ["ev", l, t, _] => do pure (s, showLog (recordLog e ⟨← l.toNat?, ← t.toNat?⟩))
  | ["ne", l, t, l2, t2] => do            -- the outer event's value emits the inner event while the outer is being formatted
    let outer : WMeta := ⟨← l.toNat?, ← t.toNat?⟩
    let inner : WMeta := ⟨← l2.toNat?, ← t2.toNat?⟩
    pure (s, showLog ((if nestedToo then recordLog e inner else []) ++ recordLog e outer))
  | ["pe", _, _] => some (s, "x:panic")           -- formatting panics before any writer is asked
  | ["sp", k, l, t, _, _] => do
    let m : WMeta := ⟨← l.toNat?, ← t.toNat?⟩
    let k ← k.toNat?
    pure ({ spans := (k, m, false) :: s.spans.filter (·.1 ≠ k) }, showLog (if mask % 2 == 1 then recordLog e m else []))
  | ["en", k] => do
    let k ← k.toNat?
    match s.spans.lookup k with
    | some (m, _) => pure ({ spans := (k, m, true) :: s.spans.filter (·.1 ≠ k) }, showLog (if (mask / 2) % 2 == 1 then recordLog e m else []))
    | none => pure (s, "-")
  | ["ex", k] => do
    let k ← k.toNat?
    match s.spans.lookup k with
    | some (m, _) => pure ({ spans := (k, m, false) :: s.spans.filter (·.1 ≠ k) }, showLog (if (mask / 4) % 2 == 1 then recordLog e m else []))
    | none => pure (s, "-")
  | ["cl", k] => do
    let k ← k.toNat?
    match s.spans.lookup k with
    | some (m, _) => pure ({ spans := s.spans.filter (·.1 ≠ k) }, showLog (if (mask / 8) % 2 == 1 then recordLog e m else []))
    | none => pure (s, "-")
  | ["rc", _, _] => some (s, "-")                 -- a later `Span::record`: nothing is written (the span's stored fields change)
  | ["mt", n, k] => do
    let cnt := (← n.toNat?) * (← k.toNat?)
    let one := recordLog e ⟨3, 0⟩
    pure (s, showLog (((List.replicate cnt one).flatten).mergeSort (· ≤ ·)))
  | _ => none

def runOps (rl : WExpr → WMeta → List String) (nt : Bool) (e : WExpr) (mask : Nat) : St → List (List String) → Option (List String)
  | _, [] => some []
  | s, op :: ops => do
    let (s', o) ← stepOp rl nt e mask s op
    let rest ← runOps rl nt e mask s' ops
    pure (o :: rest)

def modelWith (rl : WExpr → WMeta → List String) (nt : Bool) (toks : List String) : String :=
  let cfg := toks.takeWhile (· ≠ ";;")
  let r1 := (toks.dropWhile (· ≠ ";;")).drop 1
  let wt := r1.takeWhile (· ≠ ";;")
  let ops := (r1.dropWhile (· ≠ ";;")).drop 1
  let mask := ((cfg.find? (fun t => t.startsWith "s")).bind fun t => (t.drop 1).toString.toNat?).getD 0
  match parseW (wt.length + 1) wt with
  | some (e, []) =>
    if !WF e then "bad-case ill-typed-or-else" else
    match runOps rl nt e mask { spans := [] } (splitOps ops []) with
    | some outs => " ".intercalate outs
    | none => "bad-case"
  | _ => "bad-case"

def model (toks : List String) : String := modelWith recordLog TM.Gen.WriterRouting.onEventBusyBufferFallsBack toks
def spec (toks : List String) : String := modelWith specRecord true toks

end TM.WritersDriver
