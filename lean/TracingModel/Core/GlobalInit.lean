/-
Model of the process-wide default collector's one-shot installation
(tracing-core/src/dispatch.rs: GLOBAL_INIT, GLOBAL_DISPATCH, `set_global_default`, `get_global`) as an
interleaving transition system: any number of threads call `set_global_default`, each with its own
collector; one step = one atomic operation.  HOW the installing thread is elected (one
compare-exchange, or a load followed by a store), and whether INITIALIZED is published after the
collector has been written, are not written here: they are extracted from the source on every run
(Gen/GlobalInit.lean) and the transition system is parametrised by them.
-/
import TracingModel.Gen.GlobalInit

namespace TM.GlobalInit

structure Facts where
  cas : Bool                 -- the election is one atomic compare-exchange
  publishAfterWrite : Bool   -- INITIALIZED is stored after GLOBAL_DISPATCH is written
deriving DecidableEq, Repr

def codeFacts : Facts := { cas := TM.Gen.GlobalInit.electionIsCas, publishAfterWrite := TM.Gen.GlobalInit.publishesAfterWrite }

/-- where a thread is inside its call of `set_global_default` -/
inductive PC
  | idle                 -- has not started
  | loaded               -- (only without CAS) has read UNINITIALIZED, has not yet stored INITIALIZING
  | won                  -- holds the election: GLOBAL_INIT is INITIALIZING because of this thread
  | half                 -- has done the first of {write GLOBAL_DISPATCH, store INITIALIZED}
  | done (ok : Bool)     -- returned Ok / Err
deriving DecidableEq, Repr

structure S where
  init : Nat                    -- 0 UNINITIALIZED, 1 INITIALIZING, 2 INITIALIZED
  disp : Option Nat             -- GLOBAL_DISPATCH (none = the no-op collector it starts as)
  pc : Nat → PC

def S.start : S := { init := 0, disp := none, pc := fun _ => .idle }

def upd (f : Nat → PC) (t : Nat) (v : PC) : Nat → PC := fun x => if x = t then v else f x

/-- one atomic step of thread `t`, which installs collector `coll t` -/
def step (F : Facts) (coll : Nat → Nat) (s : S) (t : Nat) : S :=
  match s.pc t with
  | .idle =>
    if F.cas then
      if s.init = 0 then { s with init := 1, pc := upd s.pc t .won } else { s with pc := upd s.pc t (.done false) }
    else
      if s.init = 0 then { s with pc := upd s.pc t .loaded } else { s with pc := upd s.pc t (.done false) }
  | .loaded => { s with init := 1, pc := upd s.pc t .won }
  | .won =>
    if F.publishAfterWrite then { s with disp := some (coll t), pc := upd s.pc t .half }
    else { s with init := 2, pc := upd s.pc t .half }
  | .half =>
    if F.publishAfterWrite then { s with init := 2, pc := upd s.pc t (.done true) }
    else { s with disp := some (coll t), pc := upd s.pc t (.done true) }
  | .done _ => s

def run (F : Facts) (coll : Nat → Nat) (s : S) (sched : List Nat) : S := sched.foldl (step F coll) s

/-- `get_global`: the installed collector once INITIALIZED has been published, the no-op collector before -/
def getGlobal (s : S) : Option Nat := if s.init = 2 then s.disp else none

end TM.GlobalInit
