/-
Model of the JSON formatter (tracing-subscriber/src/fmt/format/json.rs, tracing-serde):
JSON values, serde_json's string escaping and compact rendering, the type mapping of event fields
(tracing_serde::SerdeMapVisitor, declaration order) and span fields (JsonVisitor: a map sorted by
key; later `record` calls parse-merge-reserialise = insert, last wins), SerializableSpan
(stored fields, then "name"), and the event layout for every combination of level / target /
flatten_event / current_span / span_list.  Strings are lists of Unicode scalar values; the wire
form is UTF-8.  Floats cross as opaque tokens (their shortest decimal form is the harness's).
Import-free.
-/
namespace TM.Json

abbrev Str := List Nat

inductive J
  | null
  | bool (b : Bool)
  | num (token : Str)          -- a JSON number token (decimal integer rendered by the model, or an opaque float token)
  | str (s : Str)
  | arr (l : List J)
  | obj (l : List (Str × J))

/-! ### serde_json's escaping -/

def hexDigit (n : Nat) : Nat := if n < 10 then 48 + n else 87 + n     -- lowercase

/-- `"` `\` and the C0 controls are escaped; everything else — DEL, U+2028/9, astral — verbatim -/
def esc1 (c : Nat) : Str :=
  if c = 34 then [92, 34]
  else if c = 92 then [92, 92]
  else if c = 8 then [92, 98]
  else if c = 12 then [92, 102]
  else if c = 10 then [92, 110]
  else if c = 13 then [92, 114]
  else if c = 9 then [92, 116]
  else if c < 32 then [92, 117, 48, 48, hexDigit (c / 16), hexDigit (c % 16)]
  else [c]

def escape (s : Str) : Str := s.flatMap esc1

def quote (s : Str) : Str := [34] ++ escape s ++ [34]

/-! ### compact rendering -/

def intersperse (sep : Str) : List Str → Str
  | [] => []
  | [x] => x
  | x :: rest => x ++ sep ++ intersperse sep rest

mutual
  def render : J → Str
    | .null => [110, 117, 108, 108]
    | .bool true => [116, 114, 117, 101]
    | .bool false => [102, 97, 108, 115, 101]
    | .num t => t
    | .str s => quote s
    | .arr l => [91] ++ renderList l ++ [93]
    | .obj l => [123] ++ renderFields l ++ [125]
  def renderList : List J → Str
    | [] => []
    | [x] => render x
    | x :: rest => render x ++ [44] ++ renderList rest
  def renderFields : List (Str × J) → Str
    | [] => []
    | [(k, v)] => quote k ++ [58] ++ render v
    | (k, v) :: rest => quote k ++ [58] ++ render v ++ [44] ++ renderFields rest
end

/-! ### recorded values and the type mapping -/

inductive Val
  | i (n : Int)
  | u (n : Nat)
  | f (token : Option Str)     -- none = NaN / ±inf (rendered `null`); some t = the float's decimal token
  | b (x : Bool)
  | s (x : Str)
  | d (text : Str)             -- a `?`/`%` value: its Debug / Display text, as a JSON string
  | empty                      -- declared but not (yet) recorded

def natDigits : Nat → Nat → Str
  | 0, _ => [48]
  | fuel + 1, n => if n < 10 then [48 + n] else natDigits fuel (n / 10) ++ [48 + n % 10]

def renderNat (n : Nat) : Str := natDigits (n + 1) n
def renderInt : Int → Str
  | .ofNat n => renderNat n
  | .negSucc n => [45] ++ renderNat (n + 1)

def Val.toJ : Val → Option J
  | .i n => some (.num (renderInt n))
  | .u n => some (.num (renderNat n))
  | .f none => some .null
  | .f (some t) => some (.num t)
  | .b x => some (.bool x)
  | .s x => some (.str x)
  | .d t => some (.str t)
  | .empty => none

/-- event fields: declaration order (tracing_serde's map visitor writes entries as it visits) -/
def eventFields (fs : List (Str × Val)) : List (Str × J) :=
  fs.filterMap fun (k, v) => v.toJ.map fun j => (k, j)

/-! ### span fields: a map sorted by key (BTreeMap<&str, Value>), insert = last wins -/

def strLt : Str → Str → Bool
  | [], [] => false
  | [], _ :: _ => true
  | _ :: _, [] => false
  | a :: as, b :: bs => if a < b then true else if b < a then false else strLt as bs

def insertSorted (k : Str) (v : J) : List (Str × J) → List (Str × J)
  | [] => [(k, v)]
  | (k', v') :: rest =>
    if k = k' then (k, v) :: rest
    else if strLt k k' then (k, v) :: (k', v') :: rest
    else (k', v') :: insertSorted k v rest

/-- `record_debug` strips a raw-identifier prefix from the key (JsonVisitor only) -/
def stripRaw (k : Str) (v : Val) : Str :=
  match v, k with
  | .d _, 114 :: 35 :: rest => rest
  | _, _ => k

/-- one `format_fields` / `add_fields` call: the visited values are inserted into the stored map -/
def recordInto (stored : List (Str × J)) (fs : List (Str × Val)) : List (Str × J) :=
  fs.foldl (fun m (k, v) => match v.toJ with
    | some j => insertSorted (stripRaw k v) j m
    | none => m) stored

structure SpanData where
  name : Str
  fields : List (Str × J)

/-- SerializableSpan: the stored fields, then `"name"` -/
def spanObj (s : SpanData) : J := .obj (s.fields ++ [([110, 97, 109, 101], .str s.name)])

structure Cfg where
  level : Bool
  target : Bool
  flatten : Bool
  currentSpan : Bool
  spanList : Bool

def levelName : Nat → Str
  | 1 => [69, 82, 82, 79, 82] | 2 => [87, 65, 82, 78] | 3 => [73, 78, 70, 79] | 4 => [68, 69, 66, 85, 71] | _ => [84, 82, 65, 67, 69]

def ofAscii (s : String) : Str := s.toList.map Char.toNat

/-- one event record (without the trailing newline); `scope` = the spans in scope, root first -/
def eventObj (c : Cfg) (lvl : Nat) (target : Str) (fs : List (Str × Val)) (scope : List SpanData) : J :=
  .obj (
    (if c.level then [(ofAscii "level", J.str (levelName lvl))] else []) ++
    (if c.flatten then eventFields fs else [(ofAscii "fields", J.obj (eventFields fs))]) ++
    (if c.target then [(ofAscii "target", J.str target)] else []) ++
    (match scope.getLast? with
     | some leaf => (if c.currentSpan then [(ofAscii "span", spanObj leaf)] else []) ++
                    (if c.spanList then [(ofAscii "spans", J.arr (scope.map spanObj))] else [])
     | none => []))

def recordLine (c : Cfg) (lvl : Nat) (target : Str) (fs : List (Str × Val)) (scope : List SpanData) : Str :=
  render (eventObj c lvl target fs scope) ++ [10]

/-! ### UTF-8 -/

def utf8 (c : Nat) : List Nat :=
  if c < 0x80 then [c]
  else if c < 0x800 then [0xC0 + c / 64, 0x80 + c % 64]
  else if c < 0x10000 then [0xE0 + c / 4096, 0x80 + (c / 64) % 64, 0x80 + c % 64]
  else [0xF0 + c / 262144, 0x80 + (c / 4096) % 64, 0x80 + (c / 64) % 64, 0x80 + c % 64]

def encode (s : Str) : List Nat := s.flatMap utf8

end TM.Json
