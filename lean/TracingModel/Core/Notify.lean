/-
Model of notification fan-out in an UNFILTERED stack `registry().with(tree)`, where `tree` is any
`and_then` composition of layers (subscribe/layered.rs, both `Layered` impls), driven by the macro
front end (interest cached per callsite).  The per-method call sequences and their control shape
are NOT written here: `notifyT` / `checkT` INTERPRET the generated tables
`Gen.Forwarding.layered` / `layeredShape`, so the theorems of Props/C09 are about what
layered.rs says now.  Hand-written parts: `pick_interest` for stacks without per-layer filters,
the front end, and the registry's answers (always interested, closes a span when its last
reference goes).  Pass-through wrappers are erased before this model is applied (that is what
Props/C09 `passthrough_*` justify).  Import-free apart from the generated table.
-/
import TracingModel.Gen.Forwarding
import TracingModel.Core.Callsite

namespace TM.Notify
open TM.Gen.Forwarding
open TM.Callsite (Interest)

/-- what a recording layer answers to the checks -/
inductive Kind
  | plain                    -- always interested, accepts everything
  | metaVeto (k : Nat)       -- `register_callsite` = sometimes, `enabled` = (level ≤ k)
  | eventVeto (k : Nat)      -- `event_enabled` = (level ≤ k)
  | never (k : Nat)          -- `register_callsite` = never for level > k, and `enabled` = (level ≤ k)
deriving DecidableEq, Repr

structure Layer where
  n : Nat
  kind : Kind
deriving DecidableEq, Repr

/-- `inner.and_then(outer)` -/
inductive Tree
  | leaf (l : Layer)
  | node (inner outer : Tree)
deriving Repr

/-- one observed notification: (layer, trait method) -/
abbrev Entry := Nat × String

def calls (impl m : String) : List (String × String) :=
  match layered.find? (fun r => r.1 == impl && r.2.1 == m) with
  | some r => r.2.2
  | none => []

def shape (impl m : String) : String :=
  match layeredShape.find? (fun r => r.1 == impl && r.2.1 == m) with
  | some r => r.2.2
  | none => "missing"

/-- a data notification `m` travelling through the tree: at every `Layered` the generated call
sequence is run (only straight-line methods are interpreted; anything else reaches nobody) -/
def notifyT : Tree → String → List Entry
  | .leaf l, m => [(l.n, m)]
  | .node i o, m =>
    if shape "Subscribe" m == "seq" then
      (calls "Subscribe" m).flatMap fun c => if c.1 == "inner" then notifyT i c.2 else notifyT o c.2
    else []

/-- a check (`enabled`, `event_enabled`) travelling through the tree: shape `guard` =
"ask the first; only if it accepts ask the second; else false" -/
def checkT (ans : Layer → Bool) : Tree → String → Bool × List Entry
  | .leaf l, m => (ans l, [(l.n, m)])
  | .node i o, m =>
    if shape "Subscribe" m == "guard" then
      match calls "Subscribe" m with
      | [c1, c2] =>
        let first := if c1.1 == "inner" then checkT ans i c1.2 else checkT ans o c1.2
        if first.1 then
          let second := if c2.1 == "inner" then checkT ans i c2.2 else checkT ans o c2.2
          (second.1, first.2 ++ second.2)
        else (false, first.2)
      | _ => (false, [])
    else (false, [])

def levelOf (mi : Nat) : Nat := (mi / 8) % 5 + 1

def staticInterest (lvl : Nat) : Kind → Interest
  | .plain => .always
  | .metaVeto _ => .sometimes
  | .eventVeto _ => .always
  | .never k => if lvl ≤ k then .always else .never

/-- `Layered::register_callsite` → `pick_interest`, no per-layer filters anywhere: the outer layer
registers first; `never` from it ends the registration (the inner stack is not asked); a
`sometimes` from it wins; otherwise the inner stack decides. -/
def registerT (lvl : Nat) : Tree → Interest × List Entry
  | .leaf l => (staticInterest lvl l.kind, [(l.n, "register_callsite")])
  | .node i o =>
    let ro := registerT lvl o
    if ro.1 = .never then (.never, ro.2)
    else
      let ri := registerT lvl i
      (if ro.1 = .sometimes then .sometimes else ri.1, ro.2 ++ ri.2)

def acceptsMeta (lvl : Nat) (l : Layer) : Bool :=
  match l.kind with
  | .metaVeto k => decide (lvl ≤ k)
  | .never k => decide (lvl ≤ k)
  | _ => true

def acceptsEvent (lvl : Nat) (l : Layer) : Bool :=
  match l.kind with
  | .eventVeto k => decide (lvl ≤ k)
  | _ => true

/-- the top-level `Layered<Tree, Registry>` (Collect impl): the registry observes nothing, the
tree is reached through the calls on `subscriber` -/
def topNotify (t : Tree) (m : String) : List Entry :=
  if shape "Collect" m == "seq" then
    (calls "Collect" m).flatMap fun c => if c.1 == "subscriber" then notifyT t c.2 else []
  else []

/-- top-level check: the tree first, then the registry (which accepts) -/
def topCheck (ans : Layer → Bool) (t : Tree) (m : String) : Bool × List Entry :=
  if shape "Collect" m == "guard" then
    match calls "Collect" m with
    | [c1, c2] =>
      if c1.1 == "subscriber" && c2.1 == "inner" then checkT ans t c1.2
      else if c1.1 == "inner" && c2.1 == "subscriber" then checkT ans t c2.2
      else (false, [])
    | _ => (false, [])
  else (false, [])

/-- top-level `try_close` once the registry reports the span closed (shape `if_inner`) -/
def topClose (t : Tree) : List Entry :=
  if shape "Collect" "try_close" == "if_inner" then
    (calls "Collect" "try_close").flatMap fun c => if c.1 == "subscriber" then notifyT t c.2 else []
  else []

structure NState where
  cache : List (Nat × Interest)     -- the front end's per-callsite interest cache
  spans : List Nat                  -- created and not yet closed (by the program's names)
  log : List Entry                  -- oldest first

/-- building the stack: `with` tells the tree `on_subscribe`, `Dispatch::new` tells it
`on_register_dispatch` -/
def NState.init (t : Tree) : NState :=
  { cache := [], spans := [], log := notifyT t "on_subscribe" ++ topNotify t "on_register_dispatch" }

def interestFor (t : Tree) (s : NState) (mi : Nat) : NState × Interest :=
  match s.cache.lookup mi with
  | some i => (s, i)
  | none =>
    let r := registerT (levelOf mi) t
    ({ s with cache := (mi, r.1) :: s.cache, log := s.log ++ r.2 }, r.1)

/-- the front end's `enabled` decision: `!never && (always || dispatch.enabled(meta))` -/
def gate (t : Tree) (s : NState) (mi : Nat) : NState × Bool :=
  let r := interestFor t s mi
  match r.2 with
  | .never => (r.1, false)
  | .always => (r.1, true)
  | .sometimes =>
    let c := topCheck (acceptsMeta (levelOf mi)) t "enabled"
    ({ r.1 with log := r.1.log ++ c.2 }, c.1)

inductive Life | enter | exit | record
deriving DecidableEq, Repr

/-- the `Collect` method of a lifecycle notification -/
def Life.collect : Life → String
  | .enter => "enter" | .exit => "exit" | .record => "record"

inductive Op
  | event (mi : Nat)
  | span (k mi : Nat)
  | life (m : Life) (k : Nat)       -- enter / exit / record on span k
  | follows (k j : Nat)
  | close (k : Nat)

def step (t : Tree) (s : NState) : Op → NState
  | .event mi =>
    let g := gate t s mi
    if g.2 then
      -- `Dispatch::event`: `if collector.event_enabled(event) { collector.event(event) }`
      let c := topCheck (acceptsEvent (levelOf mi)) t "event_enabled"
      let s1 := { g.1 with log := g.1.log ++ c.2 }
      if c.1 then { s1 with log := s1.log ++ topNotify t "event" } else s1
    else g.1
  | .span k mi =>
    let g := gate t s mi
    if g.2 then { g.1 with log := g.1.log ++ topNotify t "new_span", spans := k :: g.1.spans } else g.1
  | .life m k => if s.spans.contains k then { s with log := s.log ++ topNotify t m.collect } else s
  | .follows k j =>
    if s.spans.contains k && s.spans.contains j then { s with log := s.log ++ topNotify t "record_follows_from" } else s
  | .close k =>
    if s.spans.contains k then { s with log := s.log ++ topClose t, spans := s.spans.filter (· ≠ k) } else s

def run (t : Tree) (ops : List Op) : NState := ops.foldl (step t) (NState.init t)

/-- layers of a tree, innermost first -/
def leaves : Tree → List Layer
  | .leaf l => [l]
  | .node i o => leaves i ++ leaves o

end TM.Notify
