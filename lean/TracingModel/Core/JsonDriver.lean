/- driver glue for C14: the JSON formatter's output, byte for byte -/
import TracingModel.Core.Json
import TracingModel.Core.Wire
import TracingModel.Core.Str

namespace TM.JsonDriver
open TM.Json TM.Wire

def TARGETS : List String := ["app", "application", "app::db", "app::db::pool", "other", "", "ap"]

def strOfHex (h : String) : Option Str := (unhex h).map TM.ofString

def hexByte (n : Nat) : String :=
  let d (x : Nat) : Char := Char.ofNat (if x < 10 then 48 + x else 87 + x)
  String.ofList [d (n / 16), d (n % 16)]

def hexOf (bytes : List Nat) : String := String.join (bytes.map hexByte)

def parseInt (s : String) : Option Int :=
  match s.toList with
  | '-' :: rest => (String.ofList rest).toNat?.map fun n => -(n : Int)
  | _ => s.toNat?.map fun n => (n : Int)

def parseVal (v : String) : Option Val :=
  match v.toList with
  | 'i' :: r => (parseInt (String.ofList r)).map .i
  | 'u' :: r => (String.ofList r).toNat?.map .u
  | 'f' :: r =>
    let t := String.ofList r
    if t == "nan" || t == "inf" || t == "-inf" then some (.f none) else some (.f (some (TM.ofString t)))
  | 'b' :: r => some (.b (String.ofList r == "1"))
  | 's' :: r => (strOfHex (String.ofList r)).map .s
  | 'd' :: r => (strOfHex (String.ofList r)).map .d
  | ['e'] => some .empty
  | _ => none

def parseFields (s : String) : Option (List (Str × Val)) :=
  if s == "-" then some [] else
  (s.splitOn ",").mapM fun kv =>
    match kv.splitOn "=" with
    | [k, v] => do pure (← strOfHex k, ← parseVal v)
    | _ => none

structure St where
  spans : List (Nat × SpanData)
  stack : List Nat                  -- entered, oldest first

def flag (cfg : List String) (c : Char) : Bool :=
  cfg.any fun t => t.toList == [c, '1']

def cfgOf (cfg : List String) : Cfg :=
  { level := flag cfg 'l', target := flag cfg 't', flatten := flag cfg 'F', currentSpan := flag cfg 'c', spanList := flag cfg 'S' }

def splitOps : List String → List String → List (List String)
  | [], cur => if cur.isEmpty then [] else [cur.reverse]
  | t :: rest, cur => if t == ";" then (if cur.isEmpty then splitOps rest [] else cur.reverse :: splitOps rest []) else splitOps rest (t :: cur)

def removeLast (k : Nat) : List Nat → List Nat
  | [] => []
  | x :: rest => if rest.contains k then x :: removeLast k rest else if x = k then rest else x :: rest

def stepOp (c : Cfg) (s : St) : List String → Option (St × String)
  | ["ev", l, t, fs] => do
    let l ← l.toNat?
    let ti ← t.toNat?
    let fs ← parseFields fs
    let scope := s.stack.filterMap fun k => s.spans.lookup k
    let line := recordLine c l (TM.ofString (TARGETS.getD ti "")) fs scope
    pure (s, s!"1:f{l}.{ti},1:w{hexOf (encode line)}")
  | ["sp", k, _, _, name, fs] => do
    let k ← k.toNat?
    let fs ← parseFields fs
    let d : SpanData := { name := ← strOfHex name, fields := recordInto [] fs }
    pure ({ s with spans := (k, d) :: s.spans.filter (·.1 ≠ k) }, "-")
  | ["rc", k, fs] => do
    let k ← k.toNat?
    let fs ← parseFields fs
    match s.spans.lookup k with
    | some d => pure ({ s with spans := (k, { d with fields := recordInto d.fields fs }) :: s.spans.filter (·.1 ≠ k) }, "-")
    | none => pure (s, "-")
  | ["nop"] => some (s, "-")      -- an operation the formatter does not see (its per-layer filter rejected the span / event)
  | ["en", k] => do let k ← k.toNat?; pure (if (s.spans.lookup k).isSome then { s with stack := s.stack ++ [k] } else s, "-")
  | ["ex", k] => do let k ← k.toNat?; pure ({ s with stack := removeLast k s.stack }, "-")
  | ["cl", k] => do let k ← k.toNat?; pure ({ s with spans := s.spans.filter (·.1 ≠ k) }, "-")
  | _ => none

def runOps (c : Cfg) : St → List (List String) → Option (List String)
  | _, [] => some []
  | s, op :: ops => do
    let (s', o) ← stepOp c s op
    let rest ← runOps c s' ops
    pure (o :: rest)

def model (toks : List String) : String :=
  let cfg := toks.takeWhile (· ≠ ";;")
  let r1 := (toks.dropWhile (· ≠ ";;")).drop 1
  let ops := (r1.dropWhile (· ≠ ";;")).drop 1
  match runOps (cfgOf cfg) { spans := [], stack := [] } (splitOps ops []) with
  | some outs => " ".intercalate outs
  | none => "bad-case"

end TM.JsonDriver
