/- driver glue for C12: `<stack> ;; ops` over the real callsite pool of the harness -/
import TracingModel.Core.Reload
import TracingModel.Core.FilteringDriver
import TracingModel.Core.NotifyDriver

namespace TM.ReloadDriver
open TM.Reload TM.Filtering TM.FilterExpr TM.Directive TM.DirectiveDriver
open TM (Str ofString)

/-- the harness's callsite pool (harness/src/pool.rs): level rank = i/6+1, even = event; the
target is explicit for some macro forms and the module path for the others -/
def poolTarget (i : Nat) : String :=
  if [0, 1, 12, 18, 24].contains i then "t0"
  else if [2, 3, 9, 14, 15, 26].contains i then "t1"
  else if [4, 10, 16, 17, 23, 28, 29].contains i then "t2"
  else "tv_harness::pool"

def poolFields (i : Nat) : List String :=
  if i == 12 || i == 26 then [s!"cs{i}", "message"] else [s!"cs{i}"]

def pool (i : Nat) : Meta :=
  { target := ofString (poolTarget i), level := i / 6 + 1, isEvent := i % 2 == 0, fields := (poolFields i).map ofString }

def poolTable : String :=
  " ".intercalate ((List.range 30).map fun i =>
    s!"{i}:{poolTarget i}/{i / 6 + 1}/{if i % 2 == 0 then "e" else "s"}/{"+".intercalate (poolFields i)}")

/-- stack tokens → template and the initial values of the slots (slot numbers are positions) -/
def parseTmpl : Nat → Nat → List String → Option (List Tmpl × List (Nat × FExpr))
  | 0, _, _ => none
  | _ + 1, _, [] => some ([], [])
  | fuel + 1, fid, t :: rest =>
    if t.startsWith "RG" then do
      match (t.drop 2).toString.splitOn ":" with
      | [h, leaf] =>
        let h ← h.toNat?
        let (e, _) ← parseExpr 4 [leaf]
        let (more, vs) ← parseTmpl fuel fid rest
        pure (.rglob h :: more, (h, e) :: vs)
      | _ => none
    else if t.startsWith "RF" then do
      match (t.drop 2).toString.splitOn ":" with
      | [h, n] =>
        let h ← h.toNat?
        let n ← n.toNat?
        let body := rest.takeWhile (· ≠ ".")
        let after := (rest.dropWhile (· ≠ ".")).drop 1
        let (e, left) ← parseExpr (body.length + 1) body
        if !left.isEmpty then none
        let (more, vs) ← parseTmpl fuel (fid + 1) after
        pure (.rfilt h fid n :: more, (h, e) :: vs)
      | _ => none
    else
      match t.toList with
      | 'P' :: n => do
        let n ← (String.ofList n).toNat?
        let (more, vs) ← parseTmpl fuel fid rest
        pure (.fixed (.plain n) :: more, vs)
      | 'G' :: leaf => do
        let (e, _) ← parseExpr 4 [String.ofList leaf]
        let (more, vs) ← parseTmpl fuel fid rest
        pure (.fixed (.glob e) :: more, vs)
      | 'F' :: n => do
        let n ← (String.ofList n).toNat?
        let body := rest.takeWhile (· ≠ ".")
        let after := (rest.dropWhile (· ≠ ".")).drop 1
        let (e, left) ← parseExpr (body.length + 1) body
        if !left.isEmpty then none
        let (more, vs) ← parseTmpl fuel (fid + 1) after
        pure (.fixed (.filt fid e n) :: more, vs)
      | _ => none

def initVals (vs : List (Nat × FExpr)) : List FExpr :=
  (List.range vs.length).map fun h => (vs.lookup h).getD .optNone

def slotIsGlobal (tm : List Tmpl) (h : Nat) : Bool :=
  tm.any fun | .rglob h' => h' == h | _ => false

def parseOp (tm : List Tmpl) : List String → Option Op
  | ["em", _, cs, c] => do pure (.emit (← cs.toNat?) (← c.toNat?))
  | "rl" :: h :: toks => do
    let h ← h.toNat?
    let (e, left) ← if slotIsGlobal tm h then parseExpr 4 (toks.take 1) else parseExpr (toks.length + 1) toks
    if !left.isEmpty then none
    pure (.reload h e)
  | ["cur"] => some .current
  | ["dropc"] => some .dropCollector
  | _ => none

def showOut : Out → String
  | .received l => s!"e:{FilteringDriver.dotsN (l.mergeSort (· ≤ ·))}"
  | .reloaded ok => if ok then "r:ok" else "r:err"
  | .level l => s!"c:{l}"
  | .none => "-"

def runOps (tm : List Tmpl) : RState → List Op → List String
  | _, [] => []
  | s, op :: ops => let r := step tm pool s op; showOut r.2 :: runOps tm r.1 ops

def parseCase (toks : List String) : Option (List Tmpl × List FExpr × List Op) := do
  let (stk, ops) := FilteringDriver.splitAt2 toks
  let (tm, vs) ← parseTmpl (stk.length + 1) 0 stk
  let ops ← (TM.NotifyDriver.splitOps ops []).mapM (parseOp tm)
  pure (tm, initVals vs, ops)

def model (toks : List String) : String :=
  if toks == ["T"] then poolTable else
  match parseCase toks with
  | some (tm, vals, ops) => " ".intercalate (runOps tm (RState.init tm vals) ops)
  | none => "bad-case"

/-- the specification: no caches, no MAX_LEVEL — who should receive under the values installed by
the reloads that have returned; `cur` is left open (`*`) -/
def specOps (tm : List Tmpl) : List FExpr → Bool → List Op → List String
  | _, _, [] => []
  | vals, alive, .emit cs c :: ops =>
    (if alive then s!"e:{FilteringDriver.dotsN ((shouldReceive (instStack vals tm) (pool cs) c).mergeSort (· ≤ ·))}" else "e:")
      :: specOps tm vals alive ops
  | vals, alive, .reload h e :: ops =>
    if alive then "r:ok" :: specOps tm (vals.set h e) alive ops else "r:err" :: specOps tm vals alive ops
  | vals, alive, .current :: ops => "c:*" :: specOps tm vals alive ops
  | vals, _, .dropCollector :: ops => "-" :: specOps tm vals false ops

def spec (toks : List String) : String :=
  if toks == ["T"] then poolTable else
  match parseCase toks with
  | some (tm, vals, ops) => " ".intercalate (specOps tm vals true ops)
  | none => "bad-case"

end TM.ReloadDriver
