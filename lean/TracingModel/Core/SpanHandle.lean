/-
Model of the `Span` handle API of the `tracing` crate (tracing/src/span.rs, instrument.rs):
which collector calls a program over Span handles causes.  A handle is `(collector, id)` or
disabled; `Clone for Inner` calls `clone_span`, `Drop for Span` calls `try_close`,
`Entered`/`EnteredSpan` call `enter` / `exit`, `Instrumented` enters the span around every poll
and around the inner value's drop, `Span::current()` asks the thread's default collector for its
current span and clones it, `or_current` falls back to it for a disabled span.
Collectors here are recording collectors that hand out ids from a counter and track, per thread,
the spans entered (for `current_span`).  Import-free.
-/
namespace TM.SpanHandle

abbrev Cid := Nat     -- collector (1, 2, …); the thread default may also be "none"
abbrev Tid := Nat
abbrev Key := Nat     -- name of a handle / guard / future in the program

abbrev Ref := Cid × Nat    -- (collector, span id)

inductive Call
  | new (c : Cid) (id : Nat)
  | clone (c : Cid) (id : Nat)
  | close (c : Cid) (id : Nat)          -- try_close
  | enter (c : Cid) (id : Nat) (t : Tid)
  | exit (c : Cid) (id : Nat) (t : Tid)
  | record (c : Cid) (id : Nat)
  | follows (c : Cid) (id : Nat) (from_ : Nat)
deriving DecidableEq, Repr

inductive OwnerKind
  | handle
  | guard (t : Tid)       -- an `EnteredSpan` living on thread t
  | future                -- an `Instrumented<_>` holding the span
deriving DecidableEq, Repr

structure Owner where
  key : Key
  kind : OwnerKind
  ref : Option Ref        -- none = disabled span
deriving Repr

structure PState where
  owners : List Owner
  next : Cid → Nat                     -- id counter of each collector (first id is 1)
  entered : Cid → Tid → List Nat       -- what each collector believes is entered on each thread
  dflt : Tid → Option Cid
  accepts : Cid → Nat → Bool           -- does collector c enable a span of level rank l?
  log : List Call                      -- newest LAST

def update {α} (f : Nat → α) (k : Nat) (v : α) : Nat → α := fun x => if x = k then v else f x
def update2 {α} (f : Nat → Nat → α) (a b : Nat) (v : α) : Nat → Nat → α :=
  fun x y => if x = a ∧ y = b then v else f x y

def PState.init (accepts : Cid → Nat → Bool) : PState :=
  { owners := [], next := fun _ => 1, entered := fun _ _ => [], dflt := fun _ => none,
    accepts := accepts, log := [] }

/-- remove the owner with this key -/
def take (k : Key) : List Owner → Option (Owner × List Owner)
  | [] => none
  | o :: rest =>
    if o.key = k then some (o, rest)
    else match take k rest with
      | some (x, rest') => some (x, o :: rest')
      | none => none

def find (k : Key) (l : List Owner) : Option Owner := l.find? (fun o => o.key == k)

def emit (s : PState) (c : Call) : PState := { s with log := s.log ++ [c] }

def removeLast (id : Nat) : List Nat → List Nat
  | [] => []
  | x :: rest => if rest.contains id then x :: removeLast id rest else if x = id then rest else x :: rest

/-- `inner.collector.enter(&id)` on thread t -/
def doEnter (s : PState) (r : Option Ref) (t : Tid) : PState :=
  match r with
  | some (c, id) => emit { s with entered := update2 s.entered c t (s.entered c t ++ [id]) } (.enter c id t)
  | none => s

def doExit (s : PState) (r : Option Ref) (t : Tid) : PState :=
  match r with
  | some (c, id) => emit { s with entered := update2 s.entered c t (removeLast id (s.entered c t)) } (.exit c id t)
  | none => s

def doClose (s : PState) (r : Option Ref) : PState :=
  match r with
  | some (c, id) => emit s (.close c id)
  | none => s

/-- what the thread's default collector reports as its current span -/
def currentOf (s : PState) (t : Tid) : Option Ref :=
  match s.dflt t with
  | none => none
  | some c => ((s.entered c t).getLast?).map (fun id => (c, id))

/-- `Span::current()` on thread t: the default collector's current span, cloned -/
def currentRef (s : PState) (t : Tid) : PState × Option Ref :=
  match currentOf s t with
  | some (c, id) => (emit s (.clone c id), some (c, id))
  | none => (s, none)

inductive Op
  | newSpan (t : Tid) (h : Key) (lvl : Nat)       -- span!(…) under t's default; parent forms do not change the calls
  | clone (h h2 : Key)
  | drop (h : Key)
  | enter (t : Tid) (h g : Key)                   -- g = h.entered()  (consumes the handle)
  | exitTo (g h2 : Key)                           -- h2 = g.exit()
  | dropGuard (g : Key)                           -- drop(g): exit, then the span handle is dropped
  | inScope (t : Tid) (h : Key)                   -- h.in_scope(|| ())
  | record (h : Key)
  | follows (h h2 : Key)
  | followsGuard (h g : Key)                      -- h.follows_from(&guard): the entered guard names the span
  | current (t : Tid) (h : Key)                   -- h = Span::current()
  | orCurrent (t : Tid) (h h2 : Key)              -- h2 = h.or_current()
  | instrument (h f : Key)                        -- f = fut.instrument(h)
  | poll (t : Tid) (f : Key)
  | dropFuture (t : Tid) (f : Key)
  | dropFutureHolding (t : Tid) (f k : Key)       -- the instrumented inner future owns handle k: dropped with it
  | intoInner (f : Key)                           -- f.into_inner(): the wrapper is taken apart, its span handle dropped (no enter / exit)
  | setDefault (t : Tid) (c : Option Cid)
deriving Repr

/-- `drop(handle)`: `Drop for Span` calls `try_close` on the handle's own collector -/
def dropHandle (s : PState) (h : Key) : PState :=
  match take h s.owners with
  | some (o, rest) => if o.kind = .handle then doClose { s with owners := rest } o.ref else s
  | none => s

def step (s : PState) : Op → PState
  | .newSpan t h lvl =>
    match s.dflt t with
    | none => { s with owners := ⟨h, .handle, none⟩ :: s.owners }
    | some c =>
      if s.accepts c lvl then
        let id := s.next c
        emit { s with owners := ⟨h, .handle, some (c, id)⟩ :: s.owners, next := update s.next c (id + 1) } (.new c id)
      else { s with owners := ⟨h, .handle, none⟩ :: s.owners }
  | .clone h h2 =>
    match find h s.owners with
    | some o =>
      match o.kind, o.ref with
      | .handle, some (c, id) => emit { s with owners := ⟨h2, .handle, some (c, id)⟩ :: s.owners } (.clone c id)
      | .handle, none => { s with owners := ⟨h2, .handle, none⟩ :: s.owners }
      | _, _ => s
    | none => s
  | .drop h => dropHandle s h
  | .enter t h g =>
    match take h s.owners with
    | some (o, rest) =>
      if o.kind = .handle then doEnter { s with owners := ⟨g, .guard t, o.ref⟩ :: rest } o.ref t else s
    | none => s
  | .exitTo g h2 =>
    match take g s.owners with
    | some (o, rest) =>
      match o.kind with
      | .guard t => doExit { s with owners := ⟨h2, .handle, o.ref⟩ :: rest } o.ref t
      | _ => s
    | none => s
  | .dropGuard g =>
    match take g s.owners with
    | some (o, rest) =>
      match o.kind with
      | .guard t => doClose (doExit { s with owners := rest } o.ref t) o.ref
      | _ => s
    | none => s
  | .inScope t h =>
    match find h s.owners with
    | some o => if o.kind = .handle then doExit (doEnter s o.ref t) o.ref t else s
    | none => s
  | .record h =>
    match find h s.owners with
    | some o => match o.kind, o.ref with
      | .handle, some (c, id) => emit s (.record c id)
      | _, _ => s
    | none => s
  | .follows h h2 =>
    match find h s.owners, find h2 s.owners with
    | some o, some o2 =>
      match o.kind, o.ref, o2.kind, o2.ref with
      | .handle, some (c, id), .handle, some (_, id2) => emit s (.follows c id id2)
      | _, _, _, _ => s
    | _, _ => s
  | .followsGuard h g =>
    match find h s.owners, find g s.owners with
    | some o, some o2 =>
      match o.kind, o.ref, o2.kind, o2.ref with
      | .handle, some (c, id), .guard _, some (_, id2) => emit s (.follows c id id2)
      | _, _, _, _ => s
    | _, _ => s
  | .current t h =>
    let r := currentRef s t
    { r.1 with owners := ⟨h, .handle, r.2⟩ :: r.1.owners }
  | .orCurrent t h h2 =>
    match take h s.owners with
    | some (o, rest) =>
      if o.kind = .handle then
        match o.ref with
        | some r => { s with owners := ⟨h2, .handle, some r⟩ :: rest }
        | none =>
          let r := currentRef { s with owners := rest } t
          { r.1 with owners := ⟨h2, .handle, r.2⟩ :: r.1.owners }
      else s
    | none => s
  | .instrument h f =>
    match take h s.owners with
    | some (o, rest) => if o.kind = .handle then { s with owners := ⟨f, .future, o.ref⟩ :: rest } else s
    | none => s
  | .poll t f =>
    match find f s.owners with
    | some o => if o.kind = .future then doExit (doEnter s o.ref t) o.ref t else s
    | none => s
  | .dropFuture t f =>
    match take f s.owners with
    | some (o, rest) =>
      if o.kind = .future then doClose (doExit (doEnter { s with owners := rest } o.ref t) o.ref t) o.ref else s
    | none => s
  | .dropFutureHolding t f k =>
    -- PinnedDrop for Instrumented: enter the span, drop the inner future (which drops what it owns), exit; then the span field
    match take f s.owners with
    | some (o, rest) =>
      if o.kind = .future then doClose (doExit (dropHandle (doEnter { s with owners := rest } o.ref t) k) o.ref t) o.ref else s
    | none => s
  | .intoInner f =>
    match take f s.owners with
    | some (o, rest) => if o.kind = .future then doClose { s with owners := rest } o.ref else s
    | none => s
  | .setDefault t c => { s with dflt := update s.dflt t c }

def run (s : PState) (ops : List Op) : PState := ops.foldl step s

end TM.SpanHandle
