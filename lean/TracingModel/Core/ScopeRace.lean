/-
Scoped defaults of several threads against the ONE process-wide counter that selects `get_default`'s fast path, under every
interleaving (tracing-core/src/dispatch.rs: State::set_default, Drop for DefaultGuard, get_default / get_default_slow).

  set_default(d):   prior := thread_local.replace(Some d)      -- step 1 (thread-local, invisible to other threads)
                    SCOPED_COUNT.fetch_add(1)                   -- step 2 (ONE atomic operation iff `rmw`; else load, then store)
  drop(guard):      SCOPED_COUNT.fetch_sub(1)                   -- step 1
                    thread_local.replace(guard.prior)           -- step 2
  get_default():    if SCOPED_COUNT.load() == 0 { global } else { thread_local.unwrap_or(global) }

A thread is a sequence of such calls (program order); the schedule picks which thread takes its next atomic step.
-/
import TracingModel.Gen.AtomicCounts

namespace TM.ScopeRace

inductive PC
  | idle
  | opened                 -- set_default: thread-local replaced, the counter not yet bumped
  | loaded (v : Nat)       -- (non-atomic bump only) has read the counter, has not stored yet
  | closing                -- guard drop: the counter lowered, the thread-local not yet restored
deriving DecidableEq, Repr

/-- what a thread asks for next (ignored while it is in the middle of a call: then `step` is the only thing it can do) -/
inductive Act
  | open (col : Nat)
  | close                  -- drops the innermost guard (guards are dropped innermost first)
  | step                   -- the next atomic step of the call in progress
  | get                    -- `get_default`: which collector would an emission go to (recorded in `last`)
deriving DecidableEq, Repr

structure S where
  c : Nat                                  -- SCOPED_COUNT
  tl : Nat → Option Nat                    -- each thread's thread-local default
  guards : Nat → List (Nat × Option Nat)   -- each thread's live guards, innermost first: (collector installed, prior value held)
  pc : Nat → PC
  last : Nat → Option (Option Nat)         -- result of the thread's latest `get` (`some none` = the no-op / absent global)

def updF {α : Type} (f : Nat → α) (t : Nat) (v : α) : Nat → α := fun x => if x = t then v else f x

/-- `g`: the global default (none = not set) -/
def step (rmw : Bool) (g : Option Nat) (s : S) (ta : Nat × Act) : S :=
  let t := ta.1
  match s.pc t, ta.2 with
  | .idle, .open col =>
    { s with tl := updF s.tl t (some col), guards := updF s.guards t ((col, s.tl t) :: s.guards t), pc := updF s.pc t .opened }
  | .opened, .step =>
    if rmw then { s with c := s.c + 1, pc := updF s.pc t .idle }
    else { s with pc := updF s.pc t (.loaded s.c) }
  | .loaded v, .step => { s with c := v + 1, pc := updF s.pc t .idle }
  | .idle, .close =>
    match s.guards t with
    | [] => s
    | _ :: _ => { s with c := s.c - 1, pc := updF s.pc t .closing }
  | .closing, .step =>
    match s.guards t with
    | [] => { s with pc := updF s.pc t .idle }
    | (_, prior) :: rest => { s with tl := updF s.tl t prior, guards := updF s.guards t rest, pc := updF s.pc t .idle }
  | .idle, .get =>
    { s with last := updF s.last t (some (if s.c = 0 then g else match s.tl t with | some d => some d | none => g)) }
  | _, _ => s

def run (rmw : Bool) (g : Option Nat) (s : S) (sched : List (Nat × Act)) : S := sched.foldl (step rmw g) s

def start : S := { c := 0, tl := fun _ => none, guards := fun _ => [], pc := fun _ => .idle, last := fun _ => none }

/-- the collector an emission of thread `t` must go to: its innermost live scope, else the global default -/
def expected (g : Option Nat) (s : S) (t : Nat) : Option Nat :=
  match s.guards t with
  | (col, _) :: _ => some col
  | [] => g

end TM.ScopeRace
