/- driver glue for the C05 stream `nested` (closes started inside another span's on_close)
   case: `<n> <m> <p0> … <p(m-1)> ;; <layer>:<of>:<drops> … ;; dr k ; dr j ; …`   (parents: an earlier span's index or `-`) -/
import TracingModel.Core.CloseGuard
import TracingModel.Gen.CloseGuardFacts

namespace TM.CloseGuardDriver
open TM.CloseGuard

def splitOn (l : List String) (sep : String) : List (List String) :=
  let rec go (cur : List String) (acc : List (List String)) : List String → List (List String)
    | [] => (cur.reverse :: acc).reverse
    | x :: xs => if x == sep then go [] (cur.reverse :: acc) xs else go (x :: cur) acc xs
  go [] [] l

def parseWill (t : String) : Option Will :=
  match t.splitOn ":" with
  | [a, b, c] => do pure { layer := ← a.toNat?, of := ← b.toNat?, drops := ← c.toNat? }
  | _ => none

def showEntry (e : Nat × Nat × Bool) : String := s!"x{e.1}.{e.2.1}{if e.2.2 then "r" else "u"}"

def run (rule : Bool) (toks : List String) : String :=
  match splitOn toks ";;" with
  | [hd, ws, ops] =>
    match hd with
    | nS :: mS :: ps =>
      match nS.toNat?, mS.toNat?, ws.mapM parseWill with
      | some n, some m, some wills =>
        if ps.length ≠ m || n = 0 then "bad-case" else
        let parents : List (Option Nat) := ps.map (fun p => p.toNat?)
        let parent : Nat → Option Nat := fun k => (parents[k]?).join
        let fuel := 2 * m + 2 * wills.length + 4
        let rec go (s : S) (acc : List String) : List (List String) → String
          | [] =>
            let live := (List.range m).filter (fun k => !s.cleared.contains k)
            " ".intercalate (acc.reverse ++ ["live=" ++ (if live.isEmpty then "-" else ".".intercalate (live.map toString))])
          | ["dr", k] :: os =>
            match k.toNat? with
            | some k =>
              let before := s.log.length
              let s' := dropHandle rule n parent wills fuel s k
              let new := s'.log.drop before
              go s' ((if new.isEmpty then "-" else ",".intercalate (new.map showEntry)) :: acc) os
            | none => "bad-op"
          | [] :: os => go s acc os
          | _ => "bad-op"
        go (start m parent) [] (splitOn ops ";")
      | _, _, _ => "bad-case"
    | _ => "bad-case"
  | _ => "bad-case"

/-- the model follows the rule the translator finds in `Drop for CloseGuard` -/
def model (toks : List String) : String := run TM.Gen.CloseGuardFacts.countPerSpan toks
/-- the specification: a closed span is gone once its close has been handled, at any depth -/
def spec (toks : List String) : String := run true toks

end TM.CloseGuardDriver
