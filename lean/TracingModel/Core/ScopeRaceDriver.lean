/- driver glue for the C02 stream `seqscope`: scope histories of the h_core executor (every call run to completion before the
next one starts) through the interleaved model Core/ScopeRace, the counter bump being atomic or not as extracted -/
import TracingModel.Core.ScopeRace
import TracingModel.Core.CoreDriver

namespace TM.ScopeRaceDriver
open TM.ScopeRace

structure D where
  s : S
  g : Option Nat
  created : List Nat

def getS (r : Option (Option Nat)) : String :=
  match r with
  | some (some c) => s!"c{c}"
  | _ => "-"

/-- `static=<n> ; op ; op ; …` with ops nc / ts / sg / sd / pd / em / sp -/
def model (toks : List String) : String :=
  match toks with
  | _ :: ";" :: rest =>
    let ops := TM.CoreDriver.splitOps rest
    let rmw := TM.Gen.AtomicCounts.scopeOpenIsRmw
    let rec go (d : D) (acc : List String) : List (List String) → String
      | [] => " ".intercalate acc.reverse
      | o :: os =>
        match o with
        | "nc" :: c :: _ => match c.toNat? with
          | some c => go { d with created := c :: d.created } acc os
          | none => "bad-op"
        | ["ts"] => go d acc os
        | ["sg", _, c] => match c.toNat? with
          | some c =>
            if !d.created.contains c then go d acc os
            else if d.g.isNone then go { d with g := some c } ("ok" :: acc) os else go d ("err" :: acc) os
          | none => "bad-op"
        | ["sd", t, c] => match t.toNat?, c.toNat? with
          | some t, some c =>
            if !d.created.contains c then go d acc os
            else go { d with s := step rmw d.g (step rmw d.g d.s (t, .open c)) (t, .step) } acc os
          | _, _ => "bad-op"
        | ["pd", t] => match t.toNat? with
          | some t => go { d with s := step rmw d.g (step rmw d.g d.s (t, .close)) (t, .step) } acc os
          | none => "bad-op"
        | [k, t, _] =>
          if k == "em" || k == "sp" then
            match t.toNat? with
            | some t =>
              let s' := step rmw d.g d.s (t, .get)
              go { d with s := s' } (getS (s'.last t) :: acc) os
            | none => "bad-op"
          else "bad-op"
        | _ => "bad-op"
    go { s := start, g := none, created := [] } [] ops
  | _ => "bad-case"

end TM.ScopeRaceDriver
