/-
Model of what a layer SEES when it looks spans up from inside a callback
(subscribe/context.rs: `Context::span`, `lookup_current` + `lookup_current_filtered`, `span_scope`,
`event_span`, `event_scope`; registry/mod.rs: `SpanRef::parent`, `Scope::next`,
`SpanRef::try_with_filter`): a layer with a per-layer filter is handed a `Context` carrying its
`FilterId`, and every lookup skips the spans whose stored `FilterMap` has that filter's bit — the
spans its filter rejected.  A layer without a filter sees every span.

Built on the filtering model (the per-span map is what `emitSpan` stored); the registry side is the
span tree (parent chosen at creation: explicit, contextual = top of the thread's stack, or root) and
the thread's stack of entered spans.  Import-free apart from that.
-/
import TracingModel.Core.Filtering

namespace TM.Lookup
open TM.Filtering TM.FilterExpr TM.Directive

/-- how a span / event names its parent -/
inductive Par
  | root
  | contextual
  | explicit (j : Nat)
deriving DecidableEq, Repr

structure LState where
  t : TState                              -- bitmap + the FilterMap stored with every live span
  parent : List (Nat × Option Nat)        -- span ↦ parent (by the program's names)
  stack : List Nat                        -- spans entered on the thread, most recent first
  born : List (Nat × Meta × Ctx)          -- for the specification: what each span was created with

def LState.init : LState := { t := TState.init, parent := [], stack := [], born := [] }

def exists_ (s : LState) (k : Nat) : Bool := (s.t.spans.lookup k).isSome

/-- `SpanRef::is_enabled_for(filter)`: does a layer whose FilterId is `ofid` (none = no per-layer filter) see span `k`? -/
def visible (s : LState) (ofid : Option Nat) (k : Nat) : Bool :=
  match s.t.spans.lookup k with
  | none => false
  | some map =>
    match ofid with
    | none => true
    | some fid => !isDisabled map fid

/-- the chain `k, parent k, parent (parent k), …` (fuel = number of spans ever created: the tree is finite) -/
def chain (parent : List (Nat × Option Nat)) : Nat → Nat → List Nat
  | 0, _ => []
  | fuel + 1, k =>
    match parent.lookup k with
    | some (some p) => k :: chain parent fuel p
    | _ => [k]

def ancestors (s : LState) (k : Nat) : List Nat := chain s.parent (s.parent.length + 1) k

/-- `Scope` started at `k`: the chain, skipping the spans this layer's filter rejected (`Scope::next`) -/
def scopeFrom (s : LState) (ofid : Option Nat) (k : Nat) : List Nat :=
  (ancestors s k).filter (visible s ofid)

/-- `Context::span(id)` -/
def spanRef (s : LState) (ofid : Option Nat) (k : Nat) : Option Nat :=
  if visible s ofid k then some k else none

/-- `Context::span_scope(id)`: `None` when the span itself is not visible -/
def spanScope (s : LState) (ofid : Option Nat) (k : Nat) : Option (List Nat) :=
  (spanRef s ofid k).map (scopeFrom s ofid)

/-- `SpanRef::parent()`: the nearest proper ancestor the filter accepted -/
def parentRef (s : LState) (ofid : Option Nat) (k : Nat) : Option Nat :=
  ((ancestors s k).drop 1).find? (visible s ofid)

/-- `Context::lookup_current()`: the top of the stack if visible, else the first visible span further down -/
def lookupCurrent (s : LState) (ofid : Option Nat) : Option Nat :=
  s.stack.find? (visible s ofid)

/-- the parent a new span / an event actually gets (the registry does not consult filters here) -/
def resolve (s : LState) : Par → Option Nat
  | .root => none
  | .contextual => s.stack.head?
  | .explicit j => if exists_ s j then some j else none

/-- `Context::event_span(event)` -/
def eventSpan (s : LState) (ofid : Option Nat) : Par → Option Nat
  | .root => none
  | .contextual => lookupCurrent s ofid
  | .explicit j => if exists_ s j then spanRef s ofid j else none

def eventScope (s : LState) (ofid : Option Nat) (p : Par) : Option (List Nat) :=
  (eventSpan s ofid p).map (scopeFrom s ofid)

/-- the FilterId a recording layer's `Context` carries -/
def fidOfLayer (st : Stack) (n : Nat) : Option Nat :=
  st.findSome? fun
    | .filt fid _ k => if k = n then some fid else none
    | _ => none

/-! ### the history operations -/

/-- span creation: the front end and dispatch of the filtering model, then the registry records the parent -/
def newSpan (st : Stack) (s : LState) (k : Nat) (m : Meta) (c : Ctx) (p : Par) : LState × List Nat :=
  let r := emitSpan st s.t k m c
  if (r.1.spans.lookup k).isSome && !(exists_ s k) then
    ({ s with t := r.1, parent := (k, resolve s p) :: s.parent, born := (k, m, c) :: s.born }, r.2)
  else ({ s with t := r.1 }, r.2)

def event (st : Stack) (s : LState) (m : Meta) (c : Ctx) : LState × List Nat :=
  let r := emitEvent st s.t m c
  ({ s with t := r.1 }, r.2)

/-- `enter`: the registry pushes first, then the layers are told -/
def enter (s : LState) (k : Nat) : LState := if exists_ s k then { s with stack := k :: s.stack } else s
/-- `exit`: the registry pops (the most recent entry of that span) first, then the layers are told -/
def exit (s : LState) (k : Nat) : LState := { s with stack := s.stack.erase k }
/-- `try_close` of the last handle of a span that is not entered and has no live child: after the layers'
`on_close` the slot is cleared -/
def close (s : LState) (k : Nat) : LState :=
  { s with t := { s.t with spans := s.t.spans.filter (·.1 ≠ k) } }

/-! ### the specification's view: visibility decided by the layer's own filter alone -/

def filterOf (st : Stack) (fid : Nat) : Option FExpr :=
  st.findSome? fun
    | .filt f e _ => if f = fid then some e else none
    | _ => none

def visibleSpec (st : Stack) (s : LState) (ofid : Option Nat) (k : Nat) : Bool :=
  exists_ s k &&
  match ofid with
  | none => true
  | some fid =>
    match filterOf st fid, s.born.lookup k with
    | some f, some (m, c) => enabledF f m c
    | _, _ => false

end TM.Lookup
