/- judge for C04: replays the event log of a scheduled run of the real code through the transition
system (with the lock discipline the property needs) and checks the quiescent observations -/
import TracingModel.Core.RegRace

namespace TM.RegRaceDriver
open TM.RegRace
open TM.Callsite (Interest Cs)

structure Coll where
  c : Nat
  spec : List Char
  hint : Nat

def parseSpec (c : Nat) (s : String) : Option Coll :=
  match s.splitOn "h" with
  | [sp, h] => some { c := c, spec := sp.toList, hint := if h == "-" then 5 else h.toNat?.getD 5 }
  | _ => none

def Coll.want (k : Coll) (cs : Cs) : Interest :=
  match k.spec[cs]? with
  | some 'a' => .always
  | some 'n' => .never
  | some _ => .sometimes
  | none => .never

def Coll.accepts (k : Coll) (cs : Cs) : Bool :=
  match k.spec[cs]? with
  | some 'a' => true
  | some 't' => true
  | _ => false

inductive POp
  | hit (cs : Nat)
  | new (k : Coll)
  | drop (c : Nat)
  | rebuild
  | mutate (k : Coll)
  | reload (k : Coll)       -- the real `reload::Handle::reload`: mutate (event `modify:unlocked`), then rebuild
  | sgd (c : Nat)           -- `set_global_default` with collector c (events `sgd:ok` / `sgd:err`)
  | dropemit                -- (pre only) plain collectors emit an event while they are dropped

def splitOn' (sep : String) : List String → List String → List (List String)
  | [], cur => [cur.reverse]
  | t :: rest, cur => if t == sep then cur.reverse :: splitOn' sep rest [] else splitOn' sep rest (t :: cur)

def parseOp : List String → Option POp
  | ["hit", cs] => cs.toNat?.map .hit
  | ["new", c, spec] => do let c ← c.toNat?; let k ← parseSpec c spec; pure (.new k)
  | ["drop", c] => c.toNat?.map .drop
  | ["rebuild"] => some .rebuild
  | ["mut", c, spec] => do let c ← c.toNat?; let k ← parseSpec c spec; pure (.mutate k)
  | ["newr", c, spec] => do let c ← c.toNat?; let k ← parseSpec c spec; pure (.new k)
  | ["rl", c, spec] => do let c ← c.toNat?; let k ← parseSpec c spec; pure (.reload k)
  | ["rlb", c, spec] => do let c ← c.toNat?; let k ← parseSpec c spec; pure (.reload k)      -- (with a yield point inside the write-locked section)
  | ["sgd", c] => c.toNat?.map .sgd
  | ["dropemit", _] => some .dropemit
  | _ => none

def parseOps (toks : List String) : Option (List POp) :=
  ((splitOn' "," toks []).filter (!·.isEmpty)).mapM parseOp

def parseThread (toks : List String) : Option (List POp) :=
  match toks with
  | t :: rest => if t.startsWith "@" then parseOps rest else parseOps toks
  | [] => some []

def allColls (pre : List POp) (threads : List (List POp)) : List Coll :=
  (pre ++ threads.flatten).filterMap fun | .new k => some k | _ => none

def usedCs (threads : List (List POp)) : List Nat :=
  (threads.flatten.filterMap fun | .hit cs => some cs | _ => none).eraseDups

inductive Act
  | ignore
  | reader (st : Step)        -- a step of a registration that needs the read lock to be held / obtainable
  | unlockSeen (cs : Nat)     -- the registrant has certainly released the read lock by now
  | writerEnter (st : Step)   -- a writer acquired the write lock and runs its section
  | writerLeave
  | other (st : Step)

def eventAct (threads : List (List POp)) (ev : String) : Option Act :=
  match ev.splitOn "." with
  | [t, i, name] => do
    let t ← t.toNat?
    let i ← i.toNat?
    let prog ← threads[t]?
    let op ← prog[i]?
    match op, name with
    | .hit cs, "macro:won" => pure (.other (.cas cs))
    | .hit cs, "register:locked" => pure (.reader (.lock cs))
    | .hit cs, "register:computed" => pure (.reader (.compute cs))
    | .hit cs, "register:pushed" => pure (.reader (.push cs))
    | .hit cs, "macro:unlocked" => pure (.unlockSeen cs)
    | .hit cs, "macro:done" => pure (.other (.done cs))
    | .new k, "dispatch:locked" => pure (.writerEnter (.newDispatch k.c k.want k.hint))
    | .new _, "dispatch:rebuilt" => pure .writerLeave
    | .rebuild, "rebuild:locked" => pure (.writerEnter .rebuildCache)
    | .rebuild, "rebuild:rebuilt" => pure .writerLeave
    | .drop c, "dropped" => pure (.other (.dropCollector c))
    | .mutate k, "mutated" => pure (.other (.mutate k.c k.want k.hint))
    | .reload k, "modify:unlocked" => pure (.other (.mutate k.c k.want k.hint))
    | .reload _, "rebuild:locked" => pure (.writerEnter .rebuildCache)
    | .reload _, "rebuild:rebuilt" => pure .writerLeave
    | _, _ => pure .ignore
  | _ => none

/-- the read guard of `register` is dropped when the function returns, somewhere between the yield
points `register:pushed` and `macro:unlocked`; a writer that gets the lock in that window proves
that the drop has happened -/
def autoUnlock (U : List Cs) (s : S) : S :=
  U.foldl (fun s cs => if s.phase cs = .pushed then (step true U s (.unlock cs)).getD s else s) s

/-- replay with the lock discipline the property needs (the read lock of `register` spans compute
and push; writer sections exclude readers) -/
def replay (U : List Cs) (threads : List (List POp)) : S → Bool → List String → Except String S
  | s, _, [] => .ok s
  | s, writer, ev :: rest =>
    match eventAct threads ev with
    | none => .error s!"unparsable-event {ev}"
    | some .ignore => replay U threads s writer rest
    | some (.other st) =>
      match step true U s st with
      | some s' => replay U threads s' writer rest
      | none => .error s!"lock-discipline {ev} happened in a state where it must be excluded"
    | some (.reader st) =>
      if writer then .error s!"lock-discipline {ev} happened inside another thread's write-locked section" else
      match step true U s st with
      | some s' => replay U threads s' writer rest
      | none => .error s!"lock-discipline {ev} happened in a state where it must be excluded"
    | some (.unlockSeen cs) =>
      if s.phase cs = .pushed then replay U threads ((step true U s (.unlock cs)).getD s) writer rest
      else if s.phase cs = .released then replay U threads s writer rest
      else .error s!"lock-discipline {ev} happened in a state where it must be excluded"
    | some (.writerEnter st) =>
      if writer then .error s!"lock-discipline {ev}: two writers inside the write-locked section" else
      let s1 := autoUnlock U s
      match step true U s1 st with
      | some s' => replay U threads s' true rest
      | none => .error s!"lock-discipline {ev}: a writer entered while a registration had computed its interest but not yet pushed the callsite (or the collector id is reused)"
    | some .writerLeave => replay U threads s false rest

/-- collectors alive at the end according to the program and the log alone (no lock reasoning):
created before the race or by a `new` op, and not dropped -/
def aliveAtEnd (pre : List POp) (threads : List (List POp)) (c : Nat) : Bool :=
  let created := (pre ++ threads.flatten).any fun | .new k => k.c == c | _ => false
  let dropped := threads.flatten.any fun | .drop c' => c' == c | _ => false
  created && !dropped

/-- the value each collector ends with: its creation value, overridden by the `mut`s in the order the log shows them -/
def finalColls (pre : List POp) (threads : List (List POp)) (events : List String) : List Coll :=
  let muts := events.filterMap fun ev =>
    match ev.splitOn "." with
    | [t, i, name] =>
      match t.toNat?, i.toNat? with
      | some t, some i => match (threads[t]?).bind (·[i]?), name with
        | some (.mutate k), "mutated" => some k
        | some (.reload k), "modify:unlocked" => some k
        | _, _ => none
      | _, _ => none
    | _ => none
  muts.reverse ++ allColls pre threads

/-- the one-shot global default: exactly one of the `set_global_default` calls that ran returned Ok (none if there was
no call), and at quiescence the process-wide default is that call's collector -/
def checkGlobal (threads : List (List POp)) (events obs : List String) : Option String :=
  let results := events.filterMap fun ev =>
    match ev.splitOn "." with
    | [t, i, name] =>
      match t.toNat?, i.toNat? with
      | some t, some i => match (threads[t]?).bind (·[i]?), name with
        | some (.sgd c), "sgd:ok" => some (c, true)
        | some (.sgd c), "sgd:err" => some (c, false)
        | _, _ => none
      | _, _ => none
    | _ => none
  let oks := results.filter (·.2)
  let gd := obs.filterMap fun o => match o.splitOn ":" with | ["gd", x] => some x | _ => none
  if results.isEmpty then
    (if gd.all (· == "-") then none else some s!"global-default {gd} although set_global_default was never called")
  else if oks.length ≠ 1 then some s!"set_global_default returned Ok {oks.length} times ({oks.map (·.1)})"
  else match oks.head?, gd with
    | some (c, _), [x] => if x == toString c then none else some s!"global-default is {x} but the call that returned Ok installed {c}"
    | _, _ => some "global-default observation missing"

def checkObs (colls : List Coll) (alive : Nat → Bool) : List String → Option String
  | [] => none
  | o :: rest =>
    match o.splitOn ":" with
    | [c, cs, b] =>
      match c.toNat?, cs.toNat?, colls.find? (fun k => some k.c == c.toNat?) with
      | some c, some cs, some k =>
        let expect := alive c && k.accepts cs
        if (b == "1") == expect then checkObs colls alive rest
        else some s!"stranded collector={c} callsite={cs} accepts={if expect then 1 else 0} received={b}"
      | _, _, _ => some s!"unparsable-observation {o}"
    | _ => some s!"unparsable-observation {o}"

def judge (toks : List String) : String :=
  let caseT := toks.takeWhile (· ≠ "=>")
  let outT := (toks.dropWhile (· ≠ "=>")).drop 1
  let progT := caseT.takeWhile (· ≠ ";;")
  match splitOn' "|" progT [] with
  | pre :: ths =>
    match parseOps (pre.drop 1), ths.mapM parseThread with
    | some pre, some threads =>
      match splitOn' ";;" outT [] with
      | [status, events, obs] =>
        if status != ["ok"] then s!"bad {" ".intercalate status}" else
        -- (1) the property's oracle at quiescence: every live collector receives exactly what its filter accepts
        match checkGlobal threads (events.filter (· ≠ "-")) (obs.filter (· ≠ "-")) with
        | some e => s!"bad {e}"
        | none =>
        match checkObs (finalColls pre threads events) (aliveAtEnd pre threads) (obs.filter (fun o => o ≠ "-" && !o.startsWith "gd:")) with
        | some e => s!"bad {e}"
        | none =>
          -- (collectors that emit while being dropped perform emissions that are no operation of the scenario: such runs are
          --  judged by their status — no panic, no deadlock — and the quiescent oracle alone)
          if pre.any (fun | .dropemit => true | _ => false) then "ok" else
          -- (2) the run is a run of the proved transition system
          let U := usedCs threads
          let s0 := pre.foldl (fun s op => match op with
            | .new k => (step true U s (.newDispatch k.c k.want k.hint)).getD s
            | _ => s) S.init
          match replay U threads s0 false (events.filter (· ≠ "-")) with
          | .error e => s!"bad {e}"
          | .ok s => if !quiescent s U then "bad not-quiescent" else "ok"
      | _ => "bad output-shape"
    | _, _ => "bad-case"
  | _ => "bad-case"

end TM.RegRaceDriver
