/- driver glue for C17 -/
import TracingModel.Core.Instrument

namespace TM.InstrumentDriver
open TM.Instrument

def field (toks : List String) (k : String) : Option String :=
  (toks.find? (·.startsWith k)).map fun t => (t.drop k.length).toString

def splitOn' (sep : String) : List String → List String → List (List String)
  | [], cur => [cur.reverse]
  | t :: rest, cur => if t == sep then cur.reverse :: splitOn' sep rest [] else splitOn' sep rest (t :: cur)

def parseCfg (s : String) : Option (Option EventCfg) :=
  if s == "-" then some none else
  match s.splitOn "@" with
  | [m, l] => l.toNat?.map fun l => some { mode := if m == "Display" then .display else .debug, level := l }
  | _ => none

def parseParams (toks : List String) : Option (List Param) :=
  if toks == ["-"] then some [] else
  ((splitOn' "," toks []).filter (!·.isEmpty)).mapM fun
    | [n, ty, v, d] => some { name := n, tyname := ty, valRender := v, dbgHex := d }
    | _ => none

def parseCustoms (toks : List String) : Option (List Custom) :=
  if toks == ["-"] then some [] else
  ((splitOn' "," toks []).filter (!·.isEmpty)).mapM fun
    | [n, r] => some { name := n, render := r }
    | _ => none

def parseOutcome : List String → Option Outcome
  | ["val", d, s] => some (.val d s)
  | ["ok", d, s] => some (.ok d s)
  | ["err", d, s] => some (.err d s)
  | ["panic", _, _] => some .panic
  | _ => none

def model (toks : List String) : String :=
  match splitOn' ";;" toks [] with
  | [hd, ps, cs, oc] =>
    match hd with
    | "F" :: kind :: rest =>
      match field rest "name=", (field rest "level=").bind (·.toNat?), field rest "target=", field rest "mod=", field rest "skips=",
            (field rest "ret=").bind parseCfg, (field rest "err=").bind parseCfg, (field rest "yields=").bind (·.toNat?),
            parseParams ps, parseCustoms cs, parseOutcome oc with
      | some name, some level, some target, some modp, some skips, some ret, some err, some yields, some ps, some cs, some oc =>
        let a : Attr := { name := name, level := level, target := target, modpath := modp,
                          skips := if skips == "-" then [] else skips.splitOn ",", parentRoot := field rest "parent=" == some "root", ret := ret, err := err }
        ",".intercalate ((if kind == "async" then asyncLog a ps cs oc yields else syncLog a ps cs oc).map E.render)
      | _, _, _, _, _, _, _, _, _, _, _ => "bad-case"
    | _ => "bad-case"
  | _ => "bad-case"

end TM.InstrumentDriver
