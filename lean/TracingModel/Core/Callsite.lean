/-
Model of the callsite-interest cache and the macro guard:
  tracing-core/src/callsite.rs  (register_dispatch, register, rebuild_interest,
                                 rebuild_callsite_interest, rebuild_interest_cache)
  tracing-core/src/collect.rs   (Interest::and)
  tracing-core/src/metadata.rs  (MAX_LEVEL, set_max)
  tracing/src/lib.rs            (MacroCallsite::interest / register / is_enabled)
  tracing/src/macros.rs         (level_enabled!, event!, span!)
on top of the default-collector model (Core/Dispatch.lean).  Import-free.

Levels are ranks (OFF 0, ERROR 1 … TRACE 5; C19 proves the code's integer encoding is this
order).  A collector's filter is data: a static interest per callsite (what it answers to
`register_callsite`), a dynamic answer per callsite (what `enabled` answers when the static
interest is `sometimes`; it can be flipped) and an optional max-level hint.
-/
import TracingModel.Core.Dispatch

namespace TM.Callsite
open TM.Dispatch

abbrev Cs := Nat

inductive Interest | never | sometimes | always
deriving DecidableEq, Repr, Inhabited

/-- `Interest::and` -/
def Interest.and (a b : Interest) : Interest := if a = b then a else .sometimes

structure Filt where
  stat : Cs → Interest
  dyn  : Cs → Bool
  hint : Option Nat

/-- NoCollector: never interested, never enabled, no hint -/
def Filt.none : Filt := { stat := fun _ => .never, dyn := fun _ => false, hint := Option.none }

/-- what the collector's own filter decides for a callsite right now — the property's
"accepts": it answered `always`, or `sometimes` and its dynamic check returns true.
This is also what the collector's `enabled(meta)` returns (self-consistent filter). -/
def accepts (f : Filt) (c : Cs) : Bool :=
  match f.stat c with
  | .always => true
  | .sometimes => f.dyn c
  | .never => false

/-- `max_level_hint().unwrap_or(LevelFilter::TRACE)` -/
def hintRank (f : Filt) : Nat := f.hint.getD 5

structure CState where
  d : DState
  nthreads : Nat
  filt : Cid → Filt
  handle : Cid → Bool            -- the test program still holds the `Dispatch` it created
  created : Cid → Bool
  dispatchers : List Cid         -- REGISTRY.dispatchers (registrars, possibly of dead collectors)
  cache : Cs → Option Interest   -- per-callsite cached interest; none = not yet registered (0xFF)
  registered : List Cs           -- REGISTRY.callsites
  maxLevel : Nat                 -- MAX_LEVEL, as a rank

def CState.init : CState :=
  { d := DState.init, nthreads := 1, filt := fun _ => Filt.none, handle := fun _ => false,
    created := fun _ => false, dispatchers := [], cache := fun _ => none, registered := [], maxLevel := 0 }

/-- strong count > 0: `Weak::upgrade` succeeds.  Collector 0 (`NONE`, a `Kind::Global` static) always
upgrades. -/
def alive (s : CState) (c : Cid) : Bool :=
  c == 0 || s.handle c || referenced s.d (List.range s.nthreads) c

/-- fold of `Interest::and` over the answers of the given collectors; nobody ⇒ never -/
def foldInterest (s : CState) (cs : Cs) : List Cid → Interest
  | [] => .never
  | c :: rest => rest.foldl (fun i c' => i.and ((s.filt c').stat cs)) ((s.filt c).stat cs)

/-- `rebuild_callsite_interest` -/
def callsiteInterest (s : CState) (live : List Cid) (cs : Cs) : Interest := foldInterest s cs live

/-- `rebuild_interest`: retain live registrars, max level = max hint (no hint ⇒ TRACE) starting from
OFF, recompute every registered callsite, `set_max` -/
def rebuildInterest (s : CState) : CState :=
  let live := s.dispatchers.filter (alive s)
  let mx := live.foldl (fun m c => if hintRank (s.filt c) > m then hintRank (s.filt c) else m) 0
  { s with dispatchers := live,
           cache := fun cs => if cs ∈ s.registered then some (callsiteInterest s live cs) else s.cache cs,
           maxLevel := mx }

/-- `Dispatch::new(collector)` → `register_dispatch` -/
def newCollector (s : CState) (c : Cid) (f : Filt) : CState :=
  if c = 0 ∨ s.created c then s else
  let s1 := { s with filt := update s.filt c f, handle := update s.handle c true,
                     created := update s.created c true, dispatchers := s.dispatchers ++ [c] }
  rebuildInterest s1

/-- `rebuild_interest_cache()` (std): `rebuild_interest` over the registrars already present -/
def rebuildCache (s : CState) : CState := rebuildInterest s

/-- the program drops its `Dispatch` handle (the collector dies once nothing else refers to it;
NO rebuild happens) -/
def dropHandle (s : CState) (c : Cid) : CState := { s with handle := update s.handle c false }

/-- `MacroCallsite::interest()`: the cached value, or first-hit registration
(`callsite::register`: fold over the registrars that upgrade, store, push) -/
def interestOf (s : CState) (cs : Cs) : CState × Interest :=
  match s.cache cs with
  | some i => (s, i)
  | none =>
    let i := callsiteInterest s (s.dispatchers.filter (alive s)) cs
    ({ s with cache := update s.cache cs (some i), registered := cs :: s.registered }, i)

def curFilt (s : CState) (t : Tid) : Filt :=
  match current s.d t with
  | some c => s.filt c
  | none => Filt.none

/-- the macro guard of `event!` / `span!`:
`lvl <= STATIC_MAX_LEVEL && lvl <= LevelFilter::current() && { let i = CALLSITE.interest();
 !i.is_never() && (i.is_always() || get_default(|d| d.enabled(meta))) }`.
Returns the new state and whether the body (dispatch to the current collector) runs. -/
def emit (static_ : Nat) (lvl : Cs → Nat) (s : CState) (t : Tid) (cs : Cs) : CState × Bool :=
  if lvl cs ≤ static_ ∧ lvl cs ≤ s.maxLevel then
    let (s', i) := interestOf s cs
    (s', i != .never && (i == .always || accepts (curFilt s' t) cs))
  else (s, false)

/-- flip a collector's dynamic answer for one callsite -/
def flip (s : CState) (c : Cid) (cs : Cs) : CState :=
  let f := s.filt c
  { s with filt := update s.filt c { f with dyn := update f.dyn cs (!f.dyn cs) } }

inductive Op
  | threadStart
  | newCollector (c : Cid) (f : Filt)
  | dropHandle (c : Cid)
  | setDefault (t : Tid) (c : Cid)
  | popDefault (t : Tid)
  | setGlobal (c : Cid)
  | emit (t : Tid) (cs : Cs)
  | rebuild
  | flip (c : Cid) (cs : Cs)

inductive Out
  | none
  | setGlobal (ok : Bool)
  | delivered (t : Tid) (cs : Cs) (to : Option Cid)   -- `to = some c`: the body ran and handed the event to c
deriving DecidableEq, Repr

/-- one step.  Ops that the Rust API cannot express are no-ops: using a thread that was not
started, installing a collector whose handle the program no longer holds, … -/
def step (static_ : Nat) (lvl : Cs → Nat) (s : CState) : Op → CState × Out
  | .threadStart => ({ s with nthreads := s.nthreads + 1 }, .none)
  | .newCollector c f => (newCollector s c f, .none)
  | .dropHandle c => (dropHandle s c, .none)
  | .setDefault t c =>
    if t < s.nthreads ∧ s.handle c = true then ({ s with d := setDefault s.d t c }, .none) else (s, .none)
  | .popDefault t => if t < s.nthreads then ({ s with d := popGuard s.d t }, .none) else (s, .none)
  | .setGlobal c =>
    if s.handle c = true then
      let r := setGlobal s.d c
      ({ s with d := r.1 }, .setGlobal r.2)
    else (s, .none)
  | .emit t cs =>
    if t < s.nthreads then
      let r := emit static_ lvl s t cs
      (r.1, .delivered t cs (if r.2 then current r.1.d t else Option.none))
    else (s, .none)
  | .rebuild => (rebuildCache s, .none)
  | .flip c cs => (flip s c cs, .none)

def run (static_ : Nat) (lvl : Cs → Nat) : CState → List Op → CState × List Out
  | s, [] => (s, [])
  | s, op :: ops =>
    let r := step static_ lvl s op
    let rest := run static_ lvl r.1 ops
    (rest.1, r.2 :: rest.2)

end TM.Callsite
