/-
Model of the Level / LevelFilter machinery of tracing-core/src/metadata.rs.
The tables and the 24 hand-written comparison bodies come from Gen/Levels.lean
(regenerated from the source on every run); this file gives `usize::from_str`,
`eq_ignore_ascii_case`, `FromStr`, `current()` and the derived operators their meaning.
Import-free.
-/
import TracingModel.Gen.Levels
import TracingModel.Core.Str

namespace TM.Levels
open TM.Gen.Levels
open TM (Str ofString)

def allLvl : List Lvl := [.error, .warn, .info, .debug, .trace]
def allFlt : List Flt := none :: allLvl.map some

/-! ### `str::parse::<usize>()` (64-bit)

Strings are lists of Unicode scalar values (`Nat`); the ASCII tests below are the byte
tests of the Rust code (a non-ASCII scalar never equals an ASCII letter or digit). -/

def isDigit (c : Nat) : Bool := 48 ≤ c && c ≤ 57
def digitVal (c : Nat) : Nat := c - 48
def USIZE_LIMIT : Nat := 18446744073709551616

/-- `checked_mul(10)?.checked_add(d)?` over the digits; a non-digit is `InvalidDigit` -/
def parseDigits : Str → Nat → Option Nat
  | [], acc => some acc
  | c :: cs, acc =>
    if isDigit c then
      if acc * 10 + digitVal c < USIZE_LIMIT then parseDigits cs (acc * 10 + digitVal c) else none
    else none

/-- `usize::from_str`: empty is an error, one optional leading `+` (43), then at least one digit -/
def parseUsize (s : Str) : Option Nat :=
  match s with
  | [] => none
  | 43 :: rest => if rest.isEmpty then none else parseDigits rest 0
  | _ => parseDigits s 0

/-! ### `eq_ignore_ascii_case` -/

def asciiLower (c : Nat) : Nat := if 65 ≤ c && c ≤ 90 then c + 32 else c

def eqIgnoreAsciiCase : Str → Str → Bool
  | [], [] => true
  | a :: as, b :: bs => asciiLower a == asciiLower b && eqIgnoreAsciiCase as bs
  | _, _ => false

def firstName {α} (s : Str) : List (String × α) → Option α
  | [] => none
  | (n, v) :: rest => if eqIgnoreAsciiCase s (ofString n) then some v else firstName s rest

def firstExact {α} (s : Str) : List (String × α) → Option α
  | [] => none
  | (n, v) :: rest => if s == ofString n then some v else firstExact s rest

/-- `impl FromStr for Level` -/
def parseLevel (s : Str) : Option Lvl :=
  match (parseUsize s).bind levelOfDigit with
  | some l => some l
  | none => firstName s levelNames

/-- `impl FromStr for LevelFilter` (exact-string arms come before the case-insensitive ones) -/
def parseFilter (s : Str) : Option Flt :=
  match (parseUsize s).bind filterOfDigit with
  | some f => some f
  | none =>
    match firstExact s filterExact with
    | some f => some f
    | none => firstName s filterNames

/-! ### the published maximum level -/

def lookupCurrent (v : Nat) : List (Nat × Flt) → Option Flt
  | [] => none          -- `unreachable!` (debug) / UB (release)
  | (k, f) :: rest => if v = k then some f else lookupCurrent v rest

/-- `LevelFilter::current()` after `set_max(f)` -/
def currentAfterSet (f : Flt) : Option Flt := lookupCurrent (setMax f) currentTable

/-! ### operators that are not hand-written: derived `PartialEq`, `ne`, `Ord::{min,max}` -/

def LL_eq (a b : Lvl) : Bool := decide (a = b)     -- #[derive(PartialEq)] on Level(LevelInner)
def FF_eq (a b : Flt) : Bool := decide (a = b)     -- #[derive(PartialEq)] on LevelFilter(Option<Level>)
/-- `Ord::max`: `if other < self { self } else { other }` -/
def LL_max (a b : Lvl) : Lvl := if LL_lt b a then a else b
def LL_min (a b : Lvl) : Lvl := if LL_lt b a then b else a
def FF_max (a b : Flt) : Flt := if FF_lt b a then a else b
def FF_min (a b : Flt) : Flt := if FF_lt b a then b else a

end TM.Levels
