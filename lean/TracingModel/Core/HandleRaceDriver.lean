/- driver glue for the C05 stream `seqhandle`: histories of ONE span's handles (created, cloned, dropped on any thread) of the
h_registry executor, every call run to completion, through the interleaved model Core/HandleRace — clone and close being atomic
or not as extracted -/
import TracingModel.Core.HandleRace
import TracingModel.Core.CoreDriver

namespace TM.HandleRaceDriver
open TM.HandleRace

def THREADS : List Nat := [0, 1, 2, 3]

/-- a call run to completion -/
def call (s : S) (t : Nat) (a : Act) : S :=
  let rmw := TM.Gen.AtomicCounts.cloneIsRmw
  let old := TM.Gen.AtomicCounts.closeDecidedByFetchSub
  step rmw old (step rmw old s (t, a)) (t, .step)

def holder (s : S) : Option Nat := THREADS.find? fun t => s.held t != 0

/-- `ns t 0 r ; op ; op ; …` with ops `cl 0` (a clone into the shared pool of handles), `dr t 0` (thread t drops one), `lk 0` -/
def model (toks : List String) : String :=
  match TM.CoreDriver.splitOps toks with
  | ("ns" :: t :: _) :: ops =>
    match t.toNat? with
    | none => "bad-case"
    | some t0 =>
      let rec go (s : S) (acc : List String) : List (List String) → String
        | [] => " ".intercalate acc.reverse
        | o :: os =>
          match o with
          | ["cl", _] =>
            match holder s with
            | some h => go (call s h .clone) ("-" :: acc) os
            | none => go s ("-" :: acc) os
          | ["dr", t, _] =>
            match t.toNat? with
            | none => "bad-op"
            | some t =>
              -- the executor's handles are a shared pool: the dropping thread is handed one first
              let s1 := if s.held t != 0 then s else match holder s with
                | some h => call s h (.give t)
                | none => s
              let s2 := call s1 t .drop
              go s2 ((if s2.closes > s.closes then "x0r" else "-") :: acc) os
          | ["lk", _] => go s ((if s.closes == 0 then "p1" else "p0") :: acc) os
          | _ => "bad-op"
      go (start t0) ["n0:-"] ops
  | _ => "bad-case"

end TM.HandleRaceDriver
