/-
Model of EnvFilter's span-scoped ("dynamic") directives:
  tracing-subscriber/src/filter/env/mod.rs        (register_callsite, enabled, on_new_span, on_record,
                                                   on_enter, on_exit, on_close, base_interest)
  tracing-subscriber/src/filter/env/directive.rs  (Directive: cares_about, is_dynamic / to_static,
                                                   Dynamics::matcher, CallsiteMatcher, SpanMatcher::level)
  tracing-subscriber/src/filter/env/field.rs      (CallsiteMatch, SpanMatch, MatchVisitor for u64 / i64 / bool)
A directive `target[span{field=value,…}]=level` that names a span or has fields is DYNAMIC: a span
whose callsite it cares about (target prefix, span name, all field names declared) is always enabled,
gets a matcher when it is created, and while it is entered on the thread — and its value matchers are
all satisfied by the values recorded so far — everything up to the directive's level is enabled.
Directives without a span name and without value matchers are (also) static ones (C11's DSet).
Values are integers, booleans, floats and — for filters built with regular expressions switched off — fixed texts matched
against a value's Debug output (regular-expression matchers are not modelled).
-/
import TracingModel.Core.Directive

namespace TM.EnvDyn
open TM (Str)
open TM.Directive

inductive Val
  | int (n : Int)
  | bool (b : Bool)
  | float (quarters : Int)  -- an f64 literal / value that is a multiple of 1/4 (|v - e| < EPSILON is equality on these); never equal to an integer matcher or value
  | dbg (s : Str)           -- (filters built with regular expressions switched off) a matcher that is a fixed text / a value whose Debug output is that text
  | other                   -- a string value: matches no matcher of the model (its Debug output is quoted)
deriving DecidableEq, Repr

structure DDir where
  target : Option Str
  inSpan : Option Str
  fields : List (Str × Option Val)      -- field name, optional value matcher
  level : Nat
deriving Repr

/-- metadata of a callsite as the env filter sees it -/
structure CMeta where
  name : Str
  target : Str
  level : Nat
  isSpan : Bool
  fields : List Str
deriving Repr

def CMeta.toMeta (m : CMeta) : Meta := { target := m.target, level := m.level, isEvent := !m.isSpan, fields := m.fields }

def DDir.hasName (d : DDir) : Bool := d.inSpan.isSome
def DDir.isDynamic (d : DDir) : Bool := d.hasName || !d.fields.isEmpty
def DDir.isStatic (d : DDir) : Bool := !d.hasName && !(d.fields.any (·.2.isSome))
def DDir.toStatic (d : DDir) : SDir := { target := d.target, fields := d.fields.map (·.1), level := d.level }

/-- `impl Match for Directive`: `cares_about` -/
def caresDyn (d : DDir) (m : CMeta) : Bool :=
  (match d.target with | some t => isPrefix t m.target | none => true) &&
  (match d.inSpan with | some n => n == m.name | none => true) &&
  d.fields.all (fun f => m.fields.contains f.1)

structure Env where
  statics : DSet
  dynamics : List DDir          -- (the order inside the dynamic set does not matter: every caring directive contributes)
  dynMax : Nat

/-- what `impl Ord for Directive` calls Equal: same target, span name and field list -/
def DDir.key (d : DDir) : Option Str × Option Str × List (Str × Option Val) := (d.target, d.inSpan, d.fields)

/-- `DirectiveSet::add` on the dynamic table: a directive with the same target, span name and fields replaces the earlier one -/
def dedup (ds : List DDir) : List DDir :=
  ds.foldl (fun acc d => acc.filter (fun x => x.key != d.key) ++ [d]) []

/-- `Directive::make_tables` (a filter string parsed as a whole): dynamic directives go to the dynamic table and every
directive that is static goes (also) to the static one.  `EnvFilter::add_directive` (one directive at a time,
`viaAdd`): a directive that can be static goes to the static table ONLY. -/
def mkEnv (viaAdd : Bool) (ds : List DDir) : Env :=
  let dynIn := ds.filter (fun d => d.isDynamic && !(viaAdd && d.isStatic))
  let stats := if viaAdd then ds.filter DDir.isStatic
    else (ds.filter (!·.isDynamic)).filter DDir.isStatic ++ (ds.filter DDir.isDynamic).filter DDir.isStatic
  { statics := build (stats.map DDir.toStatic), dynamics := dedup dynIn,
    dynMax := dynIn.foldl (fun a d => max a d.level) 0 }   -- (max_level is never lowered by a replacement)

def Env.hasDynamics (e : Env) : Bool := !e.dynamics.isEmpty

/-- one `field::SpanMatch`: the value matchers of one caring directive with their matched flags, and its level -/
structure SMatch where
  fields : List (Str × Val × Bool)
  level : Nat
deriving Repr

/-- `Dynamics::matcher` + `CallsiteMatcher::to_span_match` before any value is recorded: one entry per caring
directive, holding only the fields that have a value matcher -/
def matcherOf (e : Env) (m : CMeta) : List SMatch :=
  (e.dynamics.filter (caresDyn · m)).map fun d =>
    { fields := d.fields.filterMap (fun f => f.2.map (fun v => (f.1, v, false))), level := d.level }

/-- `MatchVisitor`: an integer / boolean value satisfies the matcher of the same field when equal -/
def recordOne (name : Str) (v : Val) (sm : SMatch) : SMatch :=
  { sm with fields := sm.fields.map fun (n, want, got) => if n == name && want == v && v != .other then (n, want, true) else (n, want, got) }

def recordAll (vals : List (Str × Val)) (l : List SMatch) : List SMatch :=
  vals.foldl (fun l nv => l.map (recordOne nv.1 nv.2)) l

def SMatch.matched (sm : SMatch) : Bool := sm.fields.all (·.2.2)

/-- `SpanMatcher::level`: the most verbose level of the satisfied matchers, else the base level (OFF) -/
def levelOf (l : List SMatch) : Nat := (l.filter SMatch.matched).foldl (fun a sm => max a sm.level) 0

structure St where
  byId : List (Nat × List SMatch)     -- live spans that have a matcher
  scope : List Nat                    -- the thread's stack of raised levels, most recent first

def St.init : St := { byId := [], scope := [] }

/-- `register_callsite` -/
inductive Interest3 | never | sometimes | always
deriving DecidableEq, Repr

def caredSpan (e : Env) (m : CMeta) : Bool := e.hasDynamics && m.isSpan && !(matcherOf e m).isEmpty

def registerCallsite (e : Env) (m : CMeta) : Interest3 :=
  if caredSpan e m then .always
  else if Directive.enabled e.statics m.toMeta then .always
  else if e.hasDynamics then .sometimes else .never

/-- `EnvFilter::enabled` -/
def enabled (e : Env) (s : St) (m : CMeta) : Bool :=
  if e.hasDynamics && decide (m.level ≤ e.dynMax) && (caredSpan e m || s.scope.any (fun f => decide (m.level ≤ f))) then true
  else if decide (m.level ≤ e.statics.maxLevel) then Directive.enabled e.statics m.toMeta
  else false

/-- the macro front end: cached interest, then `enabled` -/
def passes (e : Env) (s : St) (m : CMeta) : Bool :=
  match registerCallsite e m with
  | .never => false
  | .always => true
  | .sometimes => enabled e s m

def newSpan (e : Env) (s : St) (k : Nat) (m : CMeta) (vals : List (Str × Val)) : St :=
  if caredSpan e m then { s with byId := (k, recordAll vals (matcherOf e m)) :: s.byId } else s

def record (s : St) (k : Nat) (vals : List (Str × Val)) : St :=
  { s with byId := s.byId.map fun (j, l) => if j = k then (j, recordAll vals l) else (j, l) }

def enter (s : St) (k : Nat) : St :=
  match s.byId.lookup k with
  | some l => { s with scope := levelOf l :: s.scope }
  | none => s

def exit (s : St) (k : Nat) : St :=
  if (s.byId.lookup k).isSome then { s with scope := s.scope.drop 1 } else s

def close (s : St) (k : Nat) : St := { s with byId := s.byId.filter (·.1 ≠ k) }

end TM.EnvDyn
