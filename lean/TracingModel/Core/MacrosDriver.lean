/- driver glue for C10: one macro invocation descriptor -> what each collector regime observes -/
import TracingModel.Core.Macros

namespace TM.MacrosDriver
open TM.Macros

def parseInt (s : String) : Option Int :=
  match s.toList with
  | '-' :: rest => (String.ofList rest).toNat?.map fun n => -(n : Int)
  | _ => s.toNat?.map fun n => (n : Int)

partial def parseSpec (s : String) : Option FVal :=
  match s.splitOn ":" with
  | ["e"] => some .empty
  | ["b", x] => some (.bool (x == "1"))
  | ["v", ty, n] => (parseInt n).map (.int ty false)
  | ["z", ty, n] => (parseInt n).map (.int ty true)
  | ["f", ty, b] => some (.float ty b)
  | ["s", h] => some (.str false h)
  | ["S", h] => some (.str true h)
  | ["y", h] => some (.bytes h)
  | ["r", h] => some (.error h)
  | ["D", h] => some (.display h)
  | ["d", h] => some (.debug h)
  | ["m", h] => some (.message h)
  | "w" :: rest => (parseSpec (":".intercalate rest)).map .wrapped
  | _ => none

def parseField (toks : List String) : Option FieldD :=
  match toks with
  | [name, spec, t] => do
    let v ← parseSpec spec
    let k ← (t.drop 1).toString.toNat?
    pure { name := name, val := v, ticks := k }
  | _ => none

def splitOn' (sep : String) : List String → List String → List (List String)
  | [], cur => [cur.reverse]
  | t :: rest, cur => if t == sep then cur.reverse :: splitOn' sep rest [] else splitOn' sep rest (t :: cur)

def showObs (o : List (Str × String × String) × List Nat) : String :=
  let v := if o.1.isEmpty then "-" else ";".intercalate (o.1.map fun (n, m, x) => s!"{n}:{m}:{x}")
  let e := if o.2.isEmpty then "-" else ",".intercalate (o.2.map toString)
  s!"v={v}|e={e}"

def model (toks : List String) : String :=
  match toks with
  | "I" :: "q" :: lvl :: ";;" :: _ =>
    -- `enabled!`: evaluates to "would a span / event with this metadata be enabled now"; visits nothing, evaluates nothing
    match lvl.toNat? with
    | some l => " / ".intercalate ([Regime.enable, .staticNever, .dynamicFalse, .cap 2].map fun r =>
        s!"v=71:enabled:{if enabledUnder r l then 1 else 0}|e=-")
    | none => "bad-case"
  | "I" :: _ :: lvl :: ";;" :: rest =>
    match lvl.toNat?, ((splitOn' "," rest []).filter (!·.isEmpty)).mapM parseField with
    | some l, some fs =>
      -- (the collector also notes the LEVEL of the span / event it is handed: the shorthand's own level, whatever the prefix)
      " / ".intercalate ([Regime.enable, .staticNever, .dynamicFalse, .cap 2].map fun r =>
        let o := invoke r l fs
        showObs (if enabledUnder r l then (("6c766c", "level", toString l) :: o.1, o.2) else o))
    | _, _ => "bad-case"
  | _ => "bad-case"

end TM.MacrosDriver
