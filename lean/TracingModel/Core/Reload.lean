/-
Model of reloading (tracing-subscriber/src/reload.rs) on top of the filtering model:
a stack TEMPLATE whose global-filter layers / per-layer filters may be reloadable slots, the
process-wide caches the macro front end consults (per-callsite interest, MAX_LEVEL —
tracing-core callsite.rs / metadata.rs), the stack's `max_level_hint` (`Layered::pick_level_hint`),
and `Handle::modify`, whose body is INTERPRETED from the step list the translator extracts
(Gen/ReloadOrder.lean): upgrade the Weak, write-lock, mutate, unlock, rebuild the interest cache.
Import-free apart from the filtering model and the generated step list.
-/
import TracingModel.Core.Filtering
import TracingModel.Gen.ReloadOrder

namespace TM.Reload
open TM.Filtering TM.FilterExpr TM.Directive
open TM.Callsite (Interest)

/-- one `.and_then(...)` of the stack, possibly reloadable -/
inductive Tmpl
  | fixed (nd : Node)
  | rglob (h : Nat)                 -- `reload::Subscriber<global filter layer>`, slot h
  | rfilt (h : Nat) (fid n : Nat)   -- recording layer n `.with_filter(reload::Subscriber<filter>)`, slot h

/-- reload::Subscriber forwards every callback under a read lock: the node behaves as its current value -/
def inst (vals : List FExpr) : Tmpl → Node
  | .fixed nd => nd
  | .rglob h => .glob (vals.getD h .optNone)
  | .rfilt h fid n => .filt fid (vals.getD h .optNone) n

def instStack (vals : List FExpr) (tm : List Tmpl) : Stack := tm.map (inst vals)

/-! ### `max_level_hint` of the stack -/

def leafHint : Node → Option Nat
  | .plain _ => none
  | .glob g => hintF g
  | .filt _ f _ => hintF f

/-- `cmp::max` on `Option<LevelFilter>` (`None < Some(_)`) -/
def optMax : Option Nat → Option Nat → Option Nat
  | none, b => b
  | a, none => a
  | some a, some b => some (max a b)

/-- `Layered::pick_level_hint` for a node whose inner value is not the registry and with no
`None` layers involved -/
def pickHint (psfO psfI : Bool) (oh ih : Option Nat) : Option Nat :=
  if psfO && psfI then
    (match oh, ih with
     | some a, some b => some (max a b)
     | _, _ => none)
  else if psfO && ih.isNone then none
  else if psfI && oh.isNone then none
  else optMax oh ih

/-- the and_then tree, nodes OUTERMOST first -/
def hintTree : List Node → Option Nat
  | [] => none
  | [nd] => leafHint nd
  | nd :: below => pickHint nd.isFilt (below.all Node.isFilt) (leafHint nd) (hintTree below)

/-- the top-level `Layered<Tree, Registry>`: `inner_is_registry` ⇒ the tree's hint -/
def stackHint (st : Stack) : Option Nat := hintTree st.reverse

/-- `max_level_hint().unwrap_or(TRACE)` -/
def hintRank (st : Stack) : Nat := (stackHint st).getD 5

/-! ### state -/

structure RState where
  vals : List FExpr                  -- current value of every reloadable slot
  cache : List (Nat × Interest)      -- registered callsites and their cached interest
  maxLevel : Nat                     -- MAX_LEVEL
  t : TState                         -- the per-layer-filter bitmap (clean between emissions)
  alive : Bool                       -- the collector (which owns the Arc the handles point to weakly) still exists

/-- `Dispatch::new(stack)`: `register_dispatch` rebuilds (no callsite is registered yet in a fresh process) -/
def RState.init (tm : List Tmpl) (vals : List FExpr) : RState :=
  { vals := vals, cache := [], maxLevel := hintRank (instStack vals tm), t := TState.init, alive := true }

/-- `rebuild_interest_cache()`: every registered callsite re-asks the (one) live dispatcher;
MAX_LEVEL := its hint -/
def rebuild (tm : List Tmpl) (pool : Nat → Meta) (s : RState) : RState :=
  let st := instStack s.vals tm
  { s with cache := s.cache.map (fun e => (e.1, stackInterest st (pool e.1))), maxLevel := hintRank st }

/-- `MacroCallsite::interest()`: cached, or first-hit registration -/
def interestOf (tm : List Tmpl) (pool : Nat → Meta) (s : RState) (cs : Nat) : RState × Interest :=
  match s.cache.lookup cs with
  | some i => (s, i)
  | none =>
    let i := stackInterest (instStack s.vals tm) (pool cs)
    ({ s with cache := (cs, i) :: s.cache }, i)

/-- one emission at pool callsite `cs` in context `c`: the macro guard (`level <= MAX_LEVEL`,
cached interest) and then the stack with the CURRENT values -/
def emit (tm : List Tmpl) (pool : Nat → Meta) (s : RState) (cs : Nat) (c : Ctx) : RState × List Nat :=
  if !s.alive then (s, [])
  else if (pool cs).level ≤ s.maxLevel then
    let r := interestOf tm pool s cs
    let e := emitEventI r.2 (instStack r.1.vals tm) r.1.t (pool cs) c
    ({ r.1 with t := e.1 }, e.2)
  else (s, [])

/-! ### `Handle::modify`, interpreted from the extracted step list -/

structure Mod where
  s : RState
  failed : Bool := false       -- returned `Err(CollectorGone)`
  locked : Bool := false       -- the write lock is held
  torn : Bool := false         -- mutated without holding the lock
  stuck : Bool := false        -- rebuilt while still holding the write lock (the rebuild read-locks: deadlock)

def modStep (tm : List Tmpl) (pool : Nat → Meta) (h : Nat) (e : FExpr) (m : Mod) (step : String) : Mod :=
  if m.failed || m.stuck then m
  else if step == "upgrade" then (if m.s.alive then m else { m with failed := true })
  else if step == "write" then { m with locked := true }
  else if step == "mutate" then
    { m with s := { m.s with vals := m.s.vals.set h e }, torn := m.torn || !m.locked }
  else if step == "unlock" then { m with locked := false }
  else if step == "rebuild" then
    (if m.locked then { m with stuck := true } else { m with s := rebuild tm pool m.s })
  else m

/-- `handle.reload(e)` = `modify(|v| *v = e)` -/
def reload (tm : List Tmpl) (pool : Nat → Meta) (s : RState) (h : Nat) (e : FExpr) : Mod :=
  TM.Gen.ReloadOrder.modifySteps.foldl (modStep tm pool h e) { s := s }

inductive Op
  | emit (cs : Nat) (c : Ctx)
  | reload (h : Nat) (e : FExpr)
  | current
  | dropCollector

inductive Out
  | received (l : List Nat)
  | reloaded (ok : Bool)
  | level (l : Nat)
  | none

def step (tm : List Tmpl) (pool : Nat → Meta) (s : RState) : Op → RState × Out
  | .emit cs c => let r := emit tm pool s cs c; (r.1, .received r.2)
  | .reload h e => let m := reload tm pool s h e; (m.s, .reloaded (!m.failed))
  | .current => (s, .level s.maxLevel)
  | .dropCollector => ({ s with alive := false }, .none)

end TM.Reload
