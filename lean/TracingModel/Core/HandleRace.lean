/-
One span's reference count against the handles threads hold, under every interleaving (tracing-subscriber/src/registry/
sharded.rs: clone_span, try_close).  A thread is a PROGRAM: it may take another reference only through one it holds, and give
back only what it holds; each call is one atomic operation on the count — or two, if the source does not use a single
read-modify-write (clone) / does not decide on the value its decrement returned (close), as extracted on every run.
-/
import TracingModel.Gen.AtomicCounts

namespace TM.HandleRace

inductive PC
  | idle
  | loaded (v : Nat)       -- (non-atomic clone only) has read the count, has not stored yet
  | decremented            -- (close decided by a separate load only) has decremented, has not looked yet
deriving DecidableEq, Repr

inductive Act
  | clone                  -- through a handle the thread holds
  | drop                   -- of a handle the thread holds
  | give (u : Nat)         -- moves one of its handles to thread u (a `Span` sent to another thread): no count operation
  | step                   -- the next atomic step of the call in progress
deriving DecidableEq, Repr

structure S where
  refs : Nat               -- the span's stored reference count
  held : Nat → Nat         -- handles each thread holds
  pc : Nat → PC
  closes : Nat             -- how many times the span has been reported closed

def updF {α : Type} (f : Nat → α) (t : Nat) (v : α) : Nat → α := fun x => if x = t then v else f x

def step (cloneRmw decByOld : Bool) (s : S) (ta : Nat × Act) : S :=
  let t := ta.1
  match s.pc t, ta.2 with
  | .idle, .clone =>
    if s.held t = 0 then s
    else if cloneRmw then { s with refs := s.refs + 1, held := updF s.held t (s.held t + 1) }
    else { s with pc := updF s.pc t (.loaded s.refs) }
  | .loaded v, .step => { s with refs := v + 1, held := updF s.held t (s.held t + 1), pc := updF s.pc t .idle }
  | .idle, .drop =>
    if s.held t = 0 then s
    else if decByOld then
      { s with refs := s.refs - 1, held := updF s.held t (s.held t - 1), closes := s.closes + (if s.refs = 1 then 1 else 0) }
    else { s with refs := s.refs - 1, held := updF s.held t (s.held t - 1), pc := updF s.pc t .decremented }
  | .idle, .give u =>
    if s.held t = 0 || u = t then s
    else { s with held := updF (updF s.held t (s.held t - 1)) u (s.held u + 1) }
  | .decremented, .step => { s with closes := s.closes + (if s.refs = 0 then 1 else 0), pc := updF s.pc t .idle }
  | _, _ => s

def run (cloneRmw decByOld : Bool) (s : S) (sched : List (Nat × Act)) : S := sched.foldl (step cloneRmw decByOld) s

/-- the span has just been created by thread `t0`, which holds the one handle -/
def start (t0 : Nat) : S := { refs := 1, held := fun x => if x = t0 then 1 else 0, pc := fun _ => .idle, closes := 0 }

end TM.HandleRace
