/- driver glue for C03: program line -> collector call log of the Span-handle model. Import-free. -/
import TracingModel.Core.SpanHandle
import TracingModel.Core.RegistryDriver

namespace TM.SpanDriver
open TM.SpanHandle

/-- harness collectors: 1 accepts every level, 2 accepts INFO (rank 3) and above -/
def harnessAccepts (c : Cid) (lvl : Nat) : Bool := if c == 2 then lvl ≤ 3 else true

-- handles, guards and futures live in disjoint key ranges
def hk (n : Nat) : Key := 3 * n
def gk (n : Nat) : Key := 3 * n + 1
def fk (n : Nat) : Key := 3 * n + 2

def parseOp : List String → Option Op
  | ["ns", t, h, l] => do pure (.newSpan (← t.toNat?) (hk (← h.toNat?)) (← l.toNat?))
  | ["cl", h, h2] => do pure (.clone (hk (← h.toNat?)) (hk (← h2.toNat?)))
  | ["dr", _t, h] => do pure (.drop (hk (← h.toNat?)))
  | ["en", t, h, g] => do pure (.enter (← t.toNat?) (hk (← h.toNat?)) (gk (← g.toNat?)))
  | ["xt", _t, g, h2] => do pure (.exitTo (gk (← g.toNat?)) (hk (← h2.toNat?)))
  | ["dg", _t, g] => do pure (.dropGuard (gk (← g.toNat?)))
  | ["is", t, h] => do pure (.inScope (← t.toNat?) (hk (← h.toNat?)))
  | ["isp", t, h] => do pure (.inScope (← t.toNat?) (hk (← h.toNat?)))      -- the closure unwinds: the guard still exits
  | ["rc", _t, h] => do pure (.record (hk (← h.toNat?)))
  | ["ff", _t, h, h2] => do pure (.follows (hk (← h.toNat?)) (hk (← h2.toNat?)))
  | ["ffg", _t, h, g] => do pure (.followsGuard (hk (← h.toNat?)) (gk (← g.toNat?)))      -- follows_from(&entered_guard)
  | ["nsg", t, h, l, _g] => do pure (.newSpan (← t.toNat?) (hk (← h.toNat?)) (← l.toNat?))   -- explicit parent given as &entered_guard: same calls
  | ["cu", t, h] => do pure (.current (← t.toNat?) (hk (← h.toNat?)))
  | ["oc", t, h, h2] => do pure (.orCurrent (← t.toNat?) (hk (← h.toNat?)) (hk (← h2.toNat?)))
  | ["in", h, f] => do pure (.instrument (hk (← h.toNat?)) (fk (← f.toNat?)))
  | ["in", h, f, _k] => do pure (.instrument (hk (← h.toNat?)) (fk (← f.toNat?)))      -- the inner future owns handle k (see `df`)
  | ["df", t, f, k] => do pure (.dropFutureHolding (← t.toNat?) (fk (← f.toNat?)) (hk (← k.toNat?)))
  | ["po", t, f] => do pure (.poll (← t.toNat?) (fk (← f.toNat?)))
  | ["df", t, f] => do pure (.dropFuture (← t.toNat?) (fk (← f.toNat?)))
  | ["ii", _t, f] => do pure (.intoInner (fk (← f.toNat?)))                               -- f.into_inner()
  | ["sd", t, c] => do pure (.setDefault (← t.toNat?) (if c == "-" then none else c.toNat?))
  | _ => none

def callTok : Call → String
  | .new c id => s!"{c}:new:{id}"
  | .clone c id => s!"{c}:clone:{id}"
  | .close c id => s!"{c}:close:{id}"
  | .enter c id t => s!"{c}:enter:{id}@{t}"
  | .exit c id t => s!"{c}:exit:{id}@{t}"
  | .record c id => s!"{c}:rec:{id}"
  | .follows c id f => s!"{c}:fol:{id}<{f}"

def model (toks : List String) : String :=
  let ops := TM.RegistryDriver.splitOn toks ";"
  let rec go (s : PState) : List (List String) → Option PState
    | [] => some s
    | o :: os => match parseOp o with
      | some op => go (step s op) os
      | none => none
  match go (PState.init harnessAccepts) ops with
  | some s => if s.log.isEmpty then "-" else " ".intercalate (s.log.map callTok)
  | none => "bad-op"

end TM.SpanDriver
