/- driver glue for C05 / C06: history line -> observable outputs of the registry model. Import-free. -/
import TracingModel.Core.Registry
import TracingModel.Core.Wire
import TracingModel.Spec.RegistrySpec

namespace TM.RegistryDriver
open TM.Registry TM.Wire

def splitOn (toks : List String) (sep : String) : List (List String) :=
  let rec go (cur : List String) (out : List (List String)) : List String → List (List String)
    | [] => (if cur.isEmpty then out else cur.reverse :: out).reverse
    | t :: rest => if t == sep then go [] (if cur.isEmpty then out else cur.reverse :: out) rest else go (t :: cur) out rest
  go [] [] toks

def showOpt : Option Nat → String
  | some n => toString n
  | none => "-"

def dots (l : List Nat) : String := ".".intercalate (l.map toString)

def newCloses (before after : RState) : String :=
  let n := after.closed.drop before.closed.length
  if n.isEmpty then "-" else ",".intercalate (n.map fun i => s!"x{i}r")

def presentCurrent (s : RState) (t : Tid) : Option Sid :=
  match current (s.stacks t) with
  | some id => match s.slots[id]? with
    | some sl => if sl.present then some id else none
    | none => none
  | none => none

def parseKind (p : String) : Option ParentKind :=
  if p == "c" then some .contextual
  else if p == "r" then some .root
  else (p.drop 1).toNat?.map .explicit

def stepTok (s : RState) : List String → Option (RState × String)
  | ["ns", t, _k, p] => do
    let t ← t.toNat?; let k ← parseKind p
    let s' := newSpan s t k
    let id := s.slots.length
    let par := (s'.slots[id]?).bind (·.parent)
    pure (s', s!"n{id}:{showOpt par}")
  | ["cl", j] => do let j ← j.toNat?; pure (cloneRef s j, "-")
  | ["dr", t, j] => do
    let t ← t.toNat?; let j ← j.toNat?
    let s' := dropHandle s t j
    pure (s', newCloses s s')
  | ["en", t, j] => do
    let t ← t.toNat?; let j ← j.toNat?
    pure (enter (cloneRef s j) t j, "-")
  | ["ex", t, j] => do
    let t ← t.toNat?; let j ← j.toNat?
    -- a guard for j exists on t iff j is on t's stack (a program cannot exit a guard it does not hold)
    if (s.stacks t).any (fun c => c.id == j) then
      let s' := dropHandle (exit s t j) t j
      pure (s', newCloses s s')
    else pure (s, "-")
  | ["ren", t, j] => do let t ← t.toNat?; let j ← j.toNat?; pure (enter s t j, "-")
  | ["rex", t, j] => do
    let t ← t.toNat?; let j ← j.toNat?
    let s' := exit s t j
    pure (s', newCloses s s')
  | ["ev", t] => do
    let t ← t.toNat?
    match s.dflt t with
    | .noneD => pure (s, "-")
    | .own =>
      let cur := presentCurrent s t
      let sc := match cur with
        | some id => scope (s.slots.length + 1) s id
        | none => []
      pure (s, s!"e:{showOpt cur}:{showOpt cur}:{dots sc}")
  | ["cu", t] => do
    let t ← t.toNat?
    match s.dflt t with
    | .noneD => pure (s, "c:-")
    | .own => pure (s, s!"c:{showOpt (presentCurrent s t)}")
  | ["sc", j] => do let j ← j.toNat?; pure (s, s!"s:{dots (scope (s.slots.length + 1) s j)}")
  | ["lk", j] => do
    let j ← j.toNat?
    let p := match s.slots[j]? with | some sl => sl.present | none => false
    pure (s, if p then "p1" else "p0")
  | ["df", t, m] => do
    let t ← t.toNat?
    pure ({ s with dflt := update s.dflt t (if m == "own" then .own else .noneD) }, "-")
  | _ => none

def model (toks : List String) : String :=
  let ops := splitOn toks ";"
  let rec go (s : RState) (acc : List String) : List (List String) → String
    | [] => " ".intercalate acc.reverse
    | o :: os =>
      match stepTok s o with
      | some (s', out) => go s' (out :: acc) os
      | none => "bad-op"
  go RState.init [] ops

end TM.RegistryDriver

namespace TM.RegistryDriver
open TM.Spec.RegistrySpec

def THREADS : Nat := 8

def addHandles (s : SState) (j : Nat) (d : Int) : SState :=
  match s.spans[j]? with
  | some sp => { s with spans := s.spans.set j { sp with handles := (sp.handles + d).toNat } }
  | none => s

def closesTok (l : List Nat) : String :=
  if l.isEmpty then "-" else ",".intercalate (l.map fun i => s!"x{i}r")

def specCur (s : SState) (t : Nat) : Option Nat :=
  match currentOf (s.entered t) with
  | some id => match s.spans[id]? with
    | some sp => if sp.closed then none else some id
    | none => none
  | none => none

/-- what the property demands for the same history (thread-default switches are ignored: the
specification does not depend on which collector is the thread's default) -/
def specStep (s : SState) : List String → Option (SState × String)
  | ["ns", t, _k, p] => do
    let t ← t.toNat?
    let parent : Option Nat ←
      if p == "c" then pure (specCur s t)
      else if p == "r" then pure none
      else (p.drop 1).toNat?.map some
    let id := s.spans.length
    pure ({ s with spans := s.spans ++ [{ parent := parent, handles := 1, closed := false }] }, s!"n{id}:{showOpt parent}")
  | ["cl", j] => do let j ← j.toNat?; pure (addHandles s j 1, "-")
  | ["dr", _t, j] => do
    let j ← j.toNat?
    let r := settle THREADS (s.spans.length + 1) (addHandles s j (-1)) []
    pure (r.1, closesTok r.2)
  | ["en", t, j] => do
    let t ← t.toNat?; let j ← j.toNat?
    let s1 := addHandles s j 1
    pure ({ s1 with entered := update s1.entered t (s1.entered t ++ [j]) }, "-")
  | ["ex", t, j] => do
    let t ← t.toNat?; let j ← j.toNat?
    if (s.entered t).contains j then
      let s1 := { s with entered := update s.entered t (removeLastOcc j (s.entered t)) }
      let r := settle THREADS (s.spans.length + 1) (addHandles s1 j (-1)) []
      pure (r.1, closesTok r.2)
    else pure (s, "-")
  | ["ren", t, j] => do
    let t ← t.toNat?; let j ← j.toNat?
    pure ({ s with entered := update s.entered t (s.entered t ++ [j]) }, "-")
  | ["rex", t, j] => do
    let t ← t.toNat?; let j ← j.toNat?
    let s1 := { s with entered := update s.entered t (removeLastOcc j (s.entered t)) }
    let r := settle THREADS (s.spans.length + 1) s1 []
    pure (r.1, closesTok r.2)
  | ["ev", t] => do
    let t ← t.toNat?
    let cur := specCur s t
    let sc := match cur with | some id => ancestors (s.spans.length + 1) s id | none => []
    pure (s, s!"e:{showOpt cur}:{showOpt cur}:{dots sc}")
  | ["cu", t] => do let t ← t.toNat?; pure (s, s!"c:{showOpt (specCur s t)}")
  | ["sc", j] => do let j ← j.toNat?; pure (s, s!"s:{dots (ancestors (s.spans.length + 1) s j)}")
  | ["lk", j] => do
    let j ← j.toNat?
    let p := match s.spans[j]? with | some sp => !sp.closed | none => false
    pure (s, if p then "p1" else "p0")
  | ["df", _, _] => pure (s, "-")
  | _ => none

def spec (toks : List String) : String :=
  let ops := splitOn toks ";"
  let rec go (s : SState) (acc : List String) : List (List String) → String
    | [] => " ".intercalate acc.reverse
    | o :: os =>
      match specStep s o with
      | some (s', out) => go s' (out :: acc) os
      | none => "bad-op"
  go SState.init [] ops

end TM.RegistryDriver
