/-
Model of fmt's writer side (tracing-subscriber/src/fmt/writer.rs, fmt_subscriber.rs on_event):
MakeWriter expressions built from recording sinks with the combinators with_max_level,
with_min_level, with_filter, and (Tee), or_else, boxed; what `make_writer_for(meta)` /
`make_writer()` return, and which sinks a `write_all` on the result reaches.
What each combinator does — its guard and WHICH METHOD of WHICH inner maker it calls — is NOT
written here: `mk` INTERPRETS the table `Gen.WriterRouting.routing` extracted from writer.rs on
every run.  Levels are ranks (ERROR 1 … TRACE 5; C19: `Level`'s order is the rank order).
Import-free apart from the generated table.
-/
import TracingModel.Gen.WriterRouting

namespace TM.Writers
open TM.Gen.WriterRouting

structure WMeta where
  level : Nat
  target : Nat        -- index into the harness's target list
deriving DecidableEq, Repr

/-- a predicate of `with_filter`, named so that the harness can build the same closure -/
inductive Pred
  | levelLe (k : Nat)       -- |m| m.level() <= k
  | targetIs (t : Nat)      -- |m| m.target() == TARGETS[t]
  | notTarget (t : Nat)
deriving DecidableEq, Repr

def Pred.eval : Pred → WMeta → Bool
  | .levelLe k, m => decide (m.level ≤ k)
  | .targetIs t, m => m.target == t
  | .notTarget t, m => m.target != t

inductive WExpr
  | sink (k : Nat)
  | maxLevel (l : Nat) (e : WExpr)
  | minLevel (l : Nat) (e : WExpr)
  | filter (p : Pred) (e : WExpr)
  | tee (a b : WExpr)
  | orElse (a b : WExpr)       -- `a.or_else(b)`; `a` must be a maxLevel / minLevel / filter (its writer is an OptionalWriter)
  | boxed (e : WExpr)
deriving Repr

/-- how a sink's maker was asked -/
inductive Ask
  | plain                      -- `make_writer()`
  | withMeta (m : WMeta)       -- `make_writer_for(meta)`
deriving DecidableEq, Repr

/-- the writer value a maker returns -/
inductive W
  | sink (k : Nat) (how : Ask)
  | none                       -- OptionalWriter::none()
  | some (w : W)               -- OptionalWriter::some(w)
  | tee (a b : W)
  | left (w : W)               -- EitherWriter::A
  | right (w : W)              -- EitherWriter::B
  | bad                        -- the table does not describe a maker we understand
deriving Repr

def row (comb meth : String) : Option (String × List (String × String)) :=
  (routing.find? (fun r => r.1 == comb && r.2.1 == meth)).map fun r => r.2.2

def methName : Option WMeta → String
  | .none => "make_writer"
  | .some _ => "make_writer_for"

/-- the argument a call of `callee` passes on: the metadata only if the callee is `make_writer_for`
(and we have one) -/
def passOn (callee : String) (m : Option WMeta) : Option (Option WMeta) :=
  if callee == "make_writer" then some .none
  else if callee == "make_writer_for" then (match m with | .some x => some (.some x) | .none => Option.none)
  else Option.none

/-- a guard combinator: `le` = `meta.level() <= self.level`, `ge`, `filter`, `none` (no guard),
`always-none` (returns OptionalWriter::none() without asking); `inner` = the wrapped maker -/
def guarded (comb : String) (le ge filt : WMeta → Bool) (inner : Option WMeta → W) (m : Option WMeta) : W :=
  match row comb (methName m) with
  | some ("always-none", []) => .none
  | some (g, [("make", c)]) =>
    (match passOn c m with
     | Option.none => .bad
     | some m' =>
       if g == "none" then .some (inner m')
       else match m with
         | .none => .bad                 -- a guard that needs metadata in the metadata-less method
         | .some x =>
           if g == "le" then (if le x then .some (inner m') else .none)
           else if g == "ge" then (if ge x then .some (inner m') else .none)
           else if g == "filter" then (if filt x then .some (inner m') else .none)
           else .bad)
  | _ => .bad

/-- `e.make_writer_for(m)` (m = some) / `e.make_writer()` (m = none), by the extracted table -/
def mk : WExpr → Option WMeta → W
  | .sink k, m => .sink k (match m with | .some x => .withMeta x | .none => .plain)
  | .boxed e, m =>
    match row "BoxMakeWriter" (methName m), row "Boxed" (methName m) with
    | some ("none", [(_, c1)]), some ("none", [(_, c2)]) =>
      (match passOn c1 m with
       | some m1 => (match passOn c2 m1 with | some m2 => mk e m2 | none => .bad)
       | none => .bad)
    | _, _ => .bad
  | .maxLevel l e, m => guarded "WithMaxLevel" (fun x => decide (x.level ≤ l)) (fun x => decide (l ≤ x.level)) (fun _ => false) (fun m' => mk e m') m
  | .minLevel l e, m => guarded "WithMinLevel" (fun x => decide (x.level ≤ l)) (fun x => decide (l ≤ x.level)) (fun _ => false) (fun m' => mk e m') m
  | .filter p e, m => guarded "WithFilter" (fun _ => false) (fun _ => false) p.eval (fun m' => mk e m') m
  | .tee a b, m =>
    match row "Tee" (methName m) with
    | some ("none", [("a", ca), ("b", cb)]) =>
      (match passOn ca m, passOn cb m with
       | some ma, some mb => .tee (mk a ma) (mk b mb)
       | _, _ => .bad)
    | _ => .bad
  | .orElse a b, m =>
    match row "OrElse" (methName m) with
    | some ("match-either", [("inner", ca), ("or_else", cb)]) =>
      (match passOn ca m, passOn cb m with
       | some ma, some mb =>
         (match mk a ma with
          | .some w => .left w            -- OptionalWriter = EitherWriter<W, Sink>: some = A, none = B
          | .none => .right (mk b mb)
          | _ => .bad)
       | _, _ => .bad)
    | _ => .bad

/-- the sinks a `write_all` on this writer reaches, in order, with how each sink's maker was asked
(`teeWritesBoth`, `eitherWritesOne`) -/
def writes : W → List (Nat × Ask)
  | .sink k how => [(k, how)]
  | .none => []
  | .some w => writes w
  | .tee a b => if teeWritesBoth then writes a ++ writes b else []
  | .left w => if eitherWritesOne then writes w else []
  | .right w => if eitherWritesOne then writes w else []
  | .bad => []

def W.isBad : W → Bool
  | .bad => true
  | .some w => w.isBad
  | .tee a b => a.isBad || b.isBad
  | .left w => w.isBad
  | .right w => w.isBad
  | _ => false

/-- fmt's `on_event` for one record that formatted successfully: ask the maker (as the extracted
counts say), then write the whole record once per `write_all` -/
def emitRecord (e : WExpr) (m : WMeta) : List (Nat × Ask) :=
  let w := if onEventMakeWriterFor == 1 && onEventMakeWriterPlain == 0 then mk e (.some m)
           else if onEventMakeWriterFor == 0 && onEventMakeWriterPlain == 1 then mk e .none
           else .bad
  if onEventMakeThenWrite then (List.replicate onEventWrites (writes w)).flatten else []

/-- an event recorded WHILE the thread is formatting another one (a field value whose `Debug` / `Display` emits through the
dispatcher): the thread-local buffer is busy; the nested record is complete before the outer one is written -/
def emitNested (e : WExpr) (inner outer : WMeta) : List (Nat × Ask) :=
  (if onEventBusyBufferFallsBack then emitRecord e inner else []) ++ emitRecord e outer

/-! ### what the expressions DENOTE (the specification) -/

def sel : WExpr → WMeta → List Nat
  | .sink k, _ => [k]
  | .maxLevel l e, m => if m.level ≤ l then sel e m else []
  | .minLevel l e, m => if l ≤ m.level then sel e m else []
  | .filter p e, m => if p.eval m then sel e m else []
  | .tee a b, m => sel a m ++ sel b m
  | .orElse a b, m =>
    (match a with
     | .maxLevel l e => if m.level ≤ l then sel e m else sel b m
     | .minLevel l e => if l ≤ m.level then sel e m else sel b m
     | .filter p e => if p.eval m then sel e m else sel b m
     | _ => [])
  | .boxed e, m => sel e m

/-- `or_else`'s first argument is one of the guard combinators (the type system demands an OptionalWriter) -/
def WF : WExpr → Bool
  | .sink _ => true
  | .maxLevel _ e => WF e
  | .minLevel _ e => WF e
  | .filter _ e => WF e
  | .tee a b => WF a && WF b
  | .orElse a b =>
    (match a with
     | .maxLevel _ e => WF e
     | .minLevel _ e => WF e
     | .filter _ e => WF e
     | _ => false) && WF b
  | .boxed e => WF e

end TM.Writers
