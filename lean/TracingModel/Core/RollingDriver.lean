/- driver glue for C16 -/
import TracingModel.Core.Rolling
import TracingModel.Core.Wire

namespace TM.RollingDriver
open TM.Rolling TM.Wire

def optStr (h : String) : Option (Option String) := if h == "-" then some none else (unhex h).map some

def splitOps : List String → List String → List (List String)
  | [], cur => if cur.isEmpty then [] else [cur.reverse]
  | t :: rest, cur => if t == ";" then (if cur.isEmpty then splitOps rest [] else cur.reverse :: splitOps rest []) else splitOps rest (t :: cur)

def insertByName (f : File) : List File → List File
  | [] => [f]
  | g :: rest => if f.name < g.name then f :: g :: rest else g :: insertByName f rest

def listing (s : S) (sortLines : Bool) : String :=
  let fs := s.dir.foldr insertByName []
  if fs.isEmpty then "-" else
  ",".intercalate (fs.map fun f =>
    let lines := if sortLines then f.content.mergeSort (· ≤ ·) else f.content
    s!"{hex f.name}={hex (String.join lines)}")

structure D where
  s : S
  now : Nat
  sortLines : Bool

def stepOp (d : D) : List String → Option (D × String)
  | ["t", u] => do pure ({ d with now := ← u.toNat? }, "-")
  | ["w", h] => do pure ({ d with s := write d.s d.now (← unhex h) }, "ok")
  | ["mw", h] => do pure ({ d with s := write d.s d.now (← unhex h) }, "ok")
  -- a writer taken and kept alive by another thread / a make_writer that may have to wait for it / its release:
  -- the writes happen, in this order, each at the time of its `make_writer`
  | ["hold", h] => do pure ({ d with s := write d.s d.now (← unhex h) }, "ok")
  | ["mwb", h] => do pure ({ d with s := write d.s d.now (← unhex h) }, "ok")
  | ["rel"] => some (d, "ok")
  | ["par", n] => do pure ({ d with s := parallel d.s d.now (← n.toNat?), sortLines := true }, "ok")
  | ["ls"] => some (d, listing d.s d.sortLines)
  | _ => none

def runOps : D → List (List String) → Option (List String)
  | _, [] => some []
  | d, op :: ops => do
    let (d', o) ← stepOp d op
    let rest ← runOps d' ops
    pure (o :: rest)

def field (toks : List String) (k : String) : Option String :=
  (toks.find? (·.startsWith k)).map fun t => (t.drop k.length).toString

def model (toks : List String) : String :=
  let hd := toks.takeWhile (· ≠ ";;")
  let ops := (toks.dropWhile (· ≠ ";;")).drop 1
  match field hd "rot=", (field hd "pre=").bind optStr, (field hd "suf=").bind optStr, field hd "max=", (field hd "t0=").bind (·.toNat?) with
  | some r, some pre, some suf, some mx, some t0 =>
    let k : Kind := if r == "m" then .minutely else if r == "h" then .hourly else if r == "d" then .daily else .never
    let max := if mx == "-" then none else mx.toNat?
    match runOps { s := S.init k pre suf max t0, now := t0, sortLines := false } (splitOps ops []) with
    | some outs => " ".intercalate outs
    | none => "bad-case"
  | _, _, _, _, _ => "bad-case"

end TM.RollingDriver
