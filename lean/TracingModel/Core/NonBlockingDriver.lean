/- driver glue for C15: scripted runs of the non-blocking writer -/
import TracingModel.Core.NonBlocking

namespace TM.NonBlockingDriver
open TM.NonBlocking

structure D where
  s : S
  pending : Option Nat        -- a producer blocked in `send` (non-lossy, full queue)
  pendingResult : Option String
  pendingDrop : Bool := false  -- the guard's drop is waiting for room to enqueue Shutdown (`send_timeout`; its timeout does not fire)

def splitOps : List String → List String → List (List String)
  | [], cur => if cur.isEmpty then [] else [cur.reverse]
  | t :: rest, cur => if t == ";" then (if cur.isEmpty then splitOps rest [] else cur.reverse :: splitOps rest []) else splitOps rest (t :: cur)

/-- a blocked producer gets in as soon as there is room (or fails once the channel is disconnected) -/
def settle (d : D) : D :=
  match d.pending with
  | none =>
    if d.pendingDrop && (disconnected d.s || d.s.queue.length < d.s.cap) then { d with s := (step codeFacts d.s .dropGuard).1, pendingDrop := false }
    else d
  | some id =>
    if disconnected d.s then { d with s := (step codeFacts d.s (.offer id)).1, pending := none, pendingResult := some "e" }
    else if d.s.queue.length < d.s.cap then { d with s := (step codeFacts d.s (.offer id)).1, pending := none, pendingResult := some "a" }
    else d

def showOut : Out → String
  | .accepted => "a" | .dropped => "d" | .refused => "e" | .blocked => "blocked"
  | .wrote id ok => s!"w{id}:{if ok then "ok" else "err"}"
  | .flushed ok _ => s!"f:{if ok then "ok" else "err"}"
  | .none => "-"

def stepOp (d : D) (op : List String) : Option (D × String) :=
  match op.filter (fun t => !t.startsWith "+") with
  | ["of", _, id] => do
    let r := step codeFacts d.s (.offer (← id.toNat?))
    pure (settle { d with s := r.1 }, showOut r.2)
  | ["ofb", _, id] => do pure (settle { d with pending := some (← id.toNat?) }, "-")
  | ["jb"] => some ({ d with pendingResult := none }, d.pendingResult.getD "-")
  | ["gw", r] => let x := step codeFacts d.s (.writeDone (r == "ok")); some (settle { d with s := x.1 }, if x.2 == .none then "TIMEOUT" else showOut x.2)
  | ["gf", r] => let x := step codeFacts d.s (.flushDone (r == "ok")); some (settle { d with s := x.1 }, if x.2 == .none then "TIMEOUT" else showOut x.2)
  | ["drop"] => let x := step codeFacts d.s .dropGuard; some (settle { d with s := x.1 }, "-")
  | ["dropf"] => some (settle { d with pendingDrop := true }, "-")
  | ["end"] => some (d, s!"dropped={d.s.dropped},writerdropped={if d.s.writerDropped then 1 else 0}")
  | _ => none

def runOps : D → List (List String) → Option (List String)
  | _, [] => some []
  | d, op :: ops => do
    let (d', o) ← stepOp d op
    let rest ← runOps d' ops
    pure (o :: rest)

def model (toks : List String) : String :=
  match toks with
  | c :: l :: ";;" :: ops =>
    match ((c.drop 4).toString.toNat?), (l == "lossy=1") with
    | some cap, lossy =>
      match runOps { s := S.init cap lossy, pending := none, pendingResult := none } (splitOps ops []) with
      | some outs => " ".intercalate outs
      | none => "bad-case"
    | none, _ => "bad-case"
  | _ => "bad-case"

end TM.NonBlockingDriver
