/-
Specification side of C05 / C06, from the history alone (no reference counts, no span stack
data structure):
  * a span is OPEN until: no handle to it is alive, it is not entered on any thread, and all of
    its children have closed; it is reported closed exactly at the op that makes this true,
    children before parents (C05);
  * a thread's current span is the most recently entered span not yet exited on that thread;
    a contextual child gets it as parent; a scope is the chain of ancestors (C06).
-/
namespace TM.Spec.RegistrySpec

abbrev Sid := Nat
abbrev Tid := Nat

structure SpanInfo where
  parent : Option Sid
  handles : Nat            -- handles the program holds (including those owned by entered guards)
  closed : Bool
deriving Repr

structure SState where
  spans : List SpanInfo
  entered : Tid → List Sid     -- spans entered and not yet exited on the thread, oldest first
                               -- (one entry per enter; an exit removes the most recent entry of that span)

def SState.init : SState := { spans := [], entered := fun _ => [] }

def update {α} (f : Nat → α) (k : Nat) (v : α) : Nat → α := fun x => if x = k then v else f x

def removeLastOcc (id : Sid) : List Sid → List Sid
  | [] => []
  | x :: rest => if rest.contains id then x :: removeLastOcc id rest else if x = id then rest else x :: rest

/-- the thread's current span: the most recently entered one still entered.  (Re-entering a span
already entered on the same thread is excluded from this clause by the property; the registry then
keeps the FIRST entry as the position, so we skip later re-entries.) -/
def currentOf (l : List Sid) : Option Sid :=
  let rec firstOcc (seen : List Sid) : List Sid → List Sid
    | [] => []
    | x :: r => if seen.contains x then firstOcc seen r else x :: firstOcc (x :: seen) r
  (firstOcc [] l).getLast?

def isEnteredAnywhere (s : SState) (threads : Nat) (id : Sid) : Bool :=
  (List.range threads).any fun t => (s.entered t).contains id

def hasOpenChild (s : SState) (id : Sid) : Bool :=
  s.spans.any fun c => c.parent == some id && !c.closed

/-- should `id` be closed now? -/
def closable (s : SState) (threads : Nat) (id : Sid) : Bool :=
  match s.spans[id]? with
  | some sp => !sp.closed && sp.handles == 0 && !isEnteredAnywhere s threads id && !hasOpenChild s id
  | none => false

/-- close everything that has become closable, children first (a parent only becomes closable
once its children are closed); returns the closes in order -/
def settle (threads : Nat) : Nat → SState → List Sid → SState × List Sid
  | 0, s, acc => (s, acc.reverse)
  | fuel + 1, s, acc =>
    match (List.range s.spans.length).find? (closable s threads) with
    | none => (s, acc.reverse)
    | some id =>
      match s.spans[id]? with
      | some sp => settle threads fuel { s with spans := s.spans.set id { sp with closed := true } } (id :: acc)
      | none => (s, acc.reverse)

def ancestors : Nat → SState → Sid → List Sid
  | 0, _, _ => []
  | fuel + 1, s, id =>
    match s.spans[id]? with
    | some sp => if sp.closed then [] else id :: (match sp.parent with | some p => ancestors fuel s p | none => [])
    | none => []

end TM.Spec.RegistrySpec
