/-
Specification of notification fan-out for C09, written directly over the LIST of layers
(innermost first) — no `Layered`, no call tables:
  * a data notification reaches every layer exactly once, inner layers before outer ones;
  * a check asks the layers from the outside in and stops at the first veto; the answer is the
    conjunction;
  * callsite registration asks every layer from the outside in (stacks in which no layer answers
    `never`; with a `never` layer who else is asked depends on how the `and_then`s are nested —
    see Props/C09 `never_*`).
Import-free apart from the model's vocabulary (Layer, Kind, Op, NState).
-/
import TracingModel.Core.Notify

namespace TM.NotifySpec
open TM.Notify
open TM.Callsite (Interest)

def sNotify (ls : List Layer) (m : String) : List Entry := ls.map fun l => (l.n, m)

/-- layers OUTERMOST first -/
def sCheckGo (ans : Layer → Bool) (m : String) : List Layer → Bool × List Entry
  | [] => (true, [])
  | l :: rest =>
    if ans l then let r := sCheckGo ans m rest; (r.1, (l.n, m) :: r.2)
    else (false, [(l.n, m)])

def sCheck (ans : Layer → Bool) (ls : List Layer) (m : String) : Bool × List Entry := sCheckGo ans m ls.reverse

/-- registration when no layer answers `never` for this level: every layer is asked, from the
outside in; one `sometimes` makes the whole stack `sometimes` -/
def sRegister (lvl : Nat) (ls : List Layer) : Interest × List Entry :=
  (if ls.any (fun l => staticInterest lvl l.kind == .sometimes) then .sometimes else .always,
   ls.reverse.map fun l => (l.n, "register_callsite"))

def sInit (ls : List Layer) : NState :=
  { cache := [], spans := [], log := sNotify ls.reverse "on_subscribe" ++ sNotify ls "on_register_dispatch" }

def sInterestFor (ls : List Layer) (s : NState) (mi : Nat) : NState × Interest :=
  match s.cache.lookup mi with
  | some i => (s, i)
  | none =>
    let r := sRegister (levelOf mi) ls
    ({ s with cache := (mi, r.1) :: s.cache, log := s.log ++ r.2 }, r.1)

def sGate (ls : List Layer) (s : NState) (mi : Nat) : NState × Bool :=
  let r := sInterestFor ls s mi
  match r.2 with
  | .never => (r.1, false)
  | .always => (r.1, true)
  | .sometimes =>
    let c := sCheck (acceptsMeta (levelOf mi)) ls "enabled"
    ({ r.1 with log := r.1.log ++ c.2 }, c.1)

def sStep (ls : List Layer) (s : NState) : Op → NState
  | .event mi =>
    let g := sGate ls s mi
    if g.2 then
      let c := sCheck (acceptsEvent (levelOf mi)) ls "event_enabled"
      let s1 := { g.1 with log := g.1.log ++ c.2 }
      if c.1 then { s1 with log := s1.log ++ sNotify ls "on_event" } else s1
    else g.1
  | .span k mi =>
    let g := sGate ls s mi
    if g.2 then { g.1 with log := g.1.log ++ sNotify ls "on_new_span", spans := k :: g.1.spans } else g.1
  | .life m k =>
    if s.spans.contains k then { s with log := s.log ++ sNotify ls (match m with | .enter => "on_enter" | .exit => "on_exit" | .record => "on_record") } else s
  | .follows k j =>
    if s.spans.contains k && s.spans.contains j then { s with log := s.log ++ sNotify ls "on_follows_from" } else s
  | .close k =>
    if s.spans.contains k then { s with log := s.log ++ sNotify ls "on_close", spans := s.spans.filter (· ≠ k) } else s

def sRun (ls : List Layer) (ops : List Op) : NState := ops.foldl (sStep ls) (sInit ls)

/-- what the recording layers observed: entries of the absent layers (number 0) are nobody's -/
def vis (l : List Entry) : List Entry := l.filter (fun e => e.1 != 0)
/-- the layers that are really there -/
def present (ls : List Layer) : List Layer := ls.filter (fun l => l.n != 0)

end TM.NotifySpec
