/-
`judge` for C20: evaluates the calendar specification on the text the implementation
printed.  Independent of Core/DateTime.lean (it does not run the algorithm): it parses the
printed fields and checks that they are a valid Gregorian date-time denoting the instant.
-/
import TracingModel.Spec.Civil

namespace TM.Spec.CivilJudge
open TM.Spec.Civil

def isDigit (c : Char) : Bool := '0' ≤ c && c ≤ '9'

def natOfDigits (cs : List Char) : Option Nat :=
  if cs.isEmpty || !cs.all isDigit then none
  else some (cs.foldl (fun a c => a * 10 + (c.toNat - '0'.toNat)) 0)

def validB (c : Civil) : Bool :=
  decide (1 ≤ c.month ∧ c.month ≤ 12 ∧ 1 ≤ c.day ∧ c.day ≤ daysInMonth c.year c.month ∧
  0 ≤ c.hour ∧ c.hour < 24 ∧ 0 ≤ c.minute ∧ c.minute < 60 ∧ 0 ≤ c.second ∧ c.second < 60)

/-- `YYYY-MM-DDTHH:MM:SS.ffffffZ`, year possibly `+Y…` (> 9999) or `-YYYY…` (< 0) -/
def parse (s : String) : Option (Civil × Nat) := do
  let cs := s.toList
  let (sign, rest) : (Int × List Char) := match cs with
    | '+' :: r => (1, r)
    | '-' :: r => (-1, r)
    | r => (0, r)
  let ydigits := rest.takeWhile isDigit
  let rest := rest.dropWhile isDigit
  let y ← natOfDigits ydigits
  -- RFC 3339 shape: exactly four year digits unless signed
  if sign == 0 && ydigits.length != 4 then none
  if sign == 1 && (y ≤ 9999) then none
  if sign == -1 && (ydigits.length < 4 || y == 0) then none
  let year : Int := if sign == -1 then -(y : Int) else (y : Int)
  match rest with
  | ['-', m1, m2, '-', d1, d2, 'T', h1, h2, ':', i1, i2, ':', s1, s2, '.', f1, f2, f3, f4, f5, f6, 'Z'] =>
    let mo ← natOfDigits [m1, m2]
    let d ← natOfDigits [d1, d2]
    let h ← natOfDigits [h1, h2]
    let mi ← natOfDigits [i1, i2]
    let se ← natOfDigits [s1, s2]
    let f ← natOfDigits [f1, f2, f3, f4, f5, f6]
    some (⟨year, mo, d, h, mi, se⟩, f)
  | _ => none

/-- the instant `(before, secs, nanos)` as whole nanoseconds relative to the epoch -/
def instantNanos (before : Bool) (secs nanos : Nat) : Int :=
  if before then -((secs : Int) * 1000000000 + nanos) else (secs : Int) * 1000000000 + nanos

def judge (before : Bool) (secs nanos : Nat) (out : String) : String :=
  match parse out with
  | none => "bad not-rfc3339-shaped"
  | some (c, micros) =>
    let n := instantNanos before secs nanos
    let t := n / 1000000000          -- floor
    let frac := n % 1000000000       -- in [0, 1e9)
    if !validB c then "bad invalid-calendar-fields"
    else if unixOfCivil c != t then "bad wrong-instant"
    else if (micros : Int) != frac / 1000 then "bad wrong-fraction"
    else "ok"

end TM.Spec.CivilJudge
