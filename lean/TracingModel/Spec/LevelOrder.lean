/-
Specification side of C19: the verbosity order OFF < ERROR < WARN < INFO < DEBUG < TRACE
as ranks, and the accepted text language, independent of the integer encoding in the code.
-/
import TracingModel.Gen.Levels
import TracingModel.Core.Str

namespace TM.Spec.LevelOrder
open TM.Gen.Levels
open TM (Str ofString)

def rank : Lvl → Nat
  | .error => 1 | .warn => 2 | .info => 3 | .debug => 4 | .trace => 5

def frank : Flt → Nat
  | none => 0
  | some l => rank l

def ofRank : Nat → Option Lvl
  | 1 => some .error | 2 => some .warn | 3 => some .info | 4 => some .debug | 5 => some .trace
  | _ => none

def fOfRank : Nat → Option Flt
  | 0 => some none
  | n => (ofRank n).map some

def name : Lvl → String
  | .error => "error" | .warn => "warn" | .info => "info" | .debug => "debug" | .trace => "trace"

def fname : Flt → String
  | none => "off"
  | some l => name l

def isDigit (c : Nat) : Bool := 48 ≤ c && c ≤ 57

/-- unbounded value of a digit string -/
def value (cs : Str) : Nat := cs.foldl (fun a c => a * 10 + (c - 48)) 0

/-- `+?[0-9]+` ↦ its (unbounded) value -/
def numeral (s : Str) : Option Nat :=
  let ds := match s with
    | 43 :: r => r
    | r => r
  if ds.isEmpty || !ds.all isDigit then none else some (value ds)

def lower (c : Nat) : Nat := if 65 ≤ c && c ≤ 90 then c + 32 else c

/-- `s` is `n` written in some letter case -/
def caseVariant (s : Str) (n : String) : Bool := s.map lower == ofString n

def levelsInOrder : List Lvl := [.error, .warn, .info, .debug, .trace]
def filtersInOrder : List Flt := [some .error, some .warn, some .info, some .debug, some .trace, none]

/-- the documented language of `Level`: the digits 1–5 (as a decimal numeral) or a level
name in any letter case; everything else is rejected -/
def acceptLevel (s : Str) : Option Lvl :=
  match numeral s with
  | some v => ofRank v
  | none => levelsInOrder.find? (fun l => caseVariant s (name l))

/-- the documented language of `LevelFilter`: digits 0–5, a level name or `off` in any case -/
def acceptFilter (s : Str) : Option Flt :=
  match numeral s with
  | some v => fOfRank v
  | none => filtersInOrder.find? (fun f => caseVariant s (fname f))

end TM.Spec.LevelOrder
