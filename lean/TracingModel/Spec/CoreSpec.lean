/-
Specification side of C01 / C02, computed from the history alone — no caches, no counters:
  * each thread has a stack of live scopes; the current collector is the top of the emitting
    thread's stack, else the global default if one was ever set, else none (C02);
  * an emission is delivered to the current collector iff level ≤ STATIC and that collector's
    own filter accepts the callsite at that moment (C01).
Import-free apart from the shared data types.
-/
import TracingModel.Core.Callsite

namespace TM.Spec.CoreSpec
open TM.Dispatch TM.Callsite

structure SState where
  nthreads : Nat
  stack : Tid → List Cid       -- live scopes of each thread, innermost first
  glob : Option Cid            -- the process-wide default, once set
  filt : Cid → Filt
  handle : Cid → Bool
  created : Cid → Bool

def SState.init : SState :=
  { nthreads := 1, stack := fun _ => [], glob := none, filt := fun _ => Filt.none,
    handle := fun _ => false, created := fun _ => false }

def currentCollector (s : SState) (t : Tid) : Option Cid :=
  match s.stack t with
  | c :: _ => some c
  | [] => s.glob

/-- should an emission at `cs` on thread `t` be delivered, and to whom -/
def delivered (static_ : Nat) (lvl : Cs → Nat) (s : SState) (t : Tid) (cs : Cs) : Option Cid :=
  match currentCollector s t with
  | some c => if lvl cs ≤ static_ ∧ accepts (s.filt c) cs = true ∧ c ≠ 0 then some c else none
  | none => none

def step (static_ : Nat) (lvl : Cs → Nat) (s : SState) : Op → SState × Out
  | .threadStart => ({ s with nthreads := s.nthreads + 1 }, .none)
  | .newCollector c f =>
    if c = 0 ∨ s.created c then (s, .none) else
    ({ s with filt := update s.filt c f, handle := update s.handle c true, created := update s.created c true }, .none)
  | .dropHandle c => ({ s with handle := update s.handle c false }, .none)
  | .setDefault t c =>
    if t < s.nthreads ∧ s.handle c = true then ({ s with stack := update s.stack t (c :: s.stack t) }, .none) else (s, .none)
  | .popDefault t =>
    if t < s.nthreads then ({ s with stack := update s.stack t (s.stack t).tail }, .none) else (s, .none)
  | .setGlobal c =>
    if s.handle c = true then
      match s.glob with
      | none => ({ s with glob := some c }, .setGlobal true)
      | some _ => (s, .setGlobal false)
    else (s, .none)
  | .emit t cs => if t < s.nthreads then (s, .delivered t cs (delivered static_ lvl s t cs)) else (s, .none)
  | .rebuild => (s, .none)
  | .flip c cs =>
    let f := s.filt c
    ({ s with filt := update s.filt c { f with dyn := update f.dyn cs (!f.dyn cs) } }, .none)

def run (static_ : Nat) (lvl : Cs → Nat) : SState → List Op → SState × List Out
  | s, [] => (s, [])
  | s, op :: ops =>
    let r := step static_ lvl s op
    let rest := run static_ lvl r.1 ops
    (rest.1, r.2 :: rest.2)

end TM.Spec.CoreSpec
