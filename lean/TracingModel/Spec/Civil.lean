/-
Specification side of C20: the proleptic Gregorian calendar from first principles,
independent of the algorithm in datetime.rs.  Import-free.
-/
namespace TM.Spec.Civil

/-- Gregorian leap rule (proleptic, astronomical year numbering: year 0 = 1 BC) -/
def isLeap (y : Int) : Bool := (y % 4 == 0 && y % 100 != 0) || y % 400 == 0

def daysInYear (y : Int) : Int := if isLeap y then 366 else 365

/-- length of month `m` (1-based) in a year that is / is not a leap year -/
def monthLength (leap : Bool) (m : Int) : Int :=
  if m = 2 then (if leap then 29 else 28)
  else if m = 4 ∨ m = 6 ∨ m = 9 ∨ m = 11 then 30 else 31

def daysInMonth (y : Int) (m : Int) : Int := monthLength (isLeap y) m

/-- days in months `1 .. k` -/
def daysInFirstMonths (leap : Bool) : Nat → Int
  | 0 => 0
  | k + 1 => daysInFirstMonths leap k + monthLength leap (k + 1)

/-- days of year `y` before month `m` (1-based) -/
def daysBeforeMonth (y m : Int) : Int := daysInFirstMonths (isLeap y) (m - 1).toNat

/-- number of leap years in `[1, y-1]` (floor division extends it to `y ≤ 0`) -/
def leapsBefore (y : Int) : Int := (y - 1) / 4 - (y - 1) / 100 + (y - 1) / 400

/-- days from 1970-01-01 to `y`-01-01.  That this closed form is the calendar's is the
content of `daysBeforeYear_epoch` and `daysBeforeYear_succ` (Props/C20.lean). -/
def daysBeforeYear (y : Int) : Int := 365 * (y - 1970) + (leapsBefore y - leapsBefore 1970)

structure Civil where
  year : Int
  month : Int
  day : Int
  hour : Int
  minute : Int
  second : Int
deriving Repr, DecidableEq

def Civil.Valid (c : Civil) : Prop :=
  1 ≤ c.month ∧ c.month ≤ 12 ∧ 1 ≤ c.day ∧ c.day ≤ daysInMonth c.year c.month ∧
  0 ≤ c.hour ∧ c.hour < 24 ∧ 0 ≤ c.minute ∧ c.minute < 60 ∧ 0 ≤ c.second ∧ c.second < 60

def unixDays (y m d : Int) : Int := daysBeforeYear y + daysBeforeMonth y m + (d - 1)

/-- seconds since 1970-01-01T00:00:00Z of a civil date-time (no leap seconds: POSIX time) -/
def unixOfCivil (c : Civil) : Int :=
  unixDays c.year c.month c.day * 86400 + c.hour * 3600 + c.minute * 60 + c.second

end TM.Spec.Civil
