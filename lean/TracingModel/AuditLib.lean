/-
Axiom audit: for every theorem whose name lies in a given namespace, print
`AUDIT <name> <axiom> <axiom> …` (one line per theorem).  Run by `check` through a
generated two-line file:   import TracingModel.Props.Cxx / import TracingModel.AuditLib / #audit_ns Cxx
A theorem that depends on `sorryAx`, on a `native_decide`/`bv_decide` axiom or on any
axiom other than propext / Classical.choice / Quot.sound is rejected by `check`.
-/
import Lean
open Lean Elab Command

syntax (name := auditNs) "#audit_ns " ident : command

@[command_elab auditNs] def elabAuditNs : CommandElab := fun stx => do
  let ns := stx[1].getId
  let env ← getEnv
  let mut names : Array Name := #[]
  for (n, ci) in env.constants.toList do
    if ns.isPrefixOf n && !n.isInternal then
      match ci with
      | .thmInfo _ => names := names.push n
      | _ => pure ()
  let sorted := names.qsort (fun a b => a.toString < b.toString)
  for n in sorted do
    let axs ← liftCoreM (collectAxioms n)
    let axs := axs.qsort (fun a b => a.toString < b.toString)
    logInfo m!"AUDIT {n} {" ".intercalate (axs.toList.map (·.toString))}"
